#!/bin/sh
# Build govc offline from files on disk and warm the Go build cache for /repo.
set -e
cd "$(dirname "$0")"
export GOFLAGS=-mod=mod GOPROXY=off
go build -o bin/govc ./cmd/govc
