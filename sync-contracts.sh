#!/bin/sh
# copy the contract mirror into /repo (development helper; the committed copies in /repo are hook commits)
cd /verif/contracts && find . -name verif_contracts.go | while read f; do mkdir -p /repo/$(dirname $f); cp $f /repo/$f; done
