package main

// Evaluation of spec expressions.  Arithmetic is mathematical (no wrap).

import (
	"os"
	"fmt"
	"go/constant"
	"go/token"
	"go/types"
	"math/big"
	"strings"
)

type SpecEnv struct {
	in      *Interp
	f       *Frame           // frame whose variables are visible (may be nil for lemmas)
	st      *State           // current state
	old     *State           // entry state for old(); nil => old() not allowed
	pre     *State           // loop-head state of the current iteration for pre()
	vars    map[string]Val   // params (entry values), results, bound vars, lets
	pos     token.Pos        // scope position for variable lookup in f
	pkgPath string           // package for name resolution
	lets    map[string]SExpr // lazily evaluated macros
	useCur  bool             // resolve frame variables from st (loop invariants) in addition to vars
	depth   int
}

func (env *SpecEnv) fail(format string, a ...interface{}) {
	panic(&Unsupported{Msg: "spec: " + fmt.Sprintf(format, a...)})
}

func (env *SpecEnv) withState(st *State) *SpecEnv {
	n := *env
	n.st = st
	return &n
}

func (env *SpecEnv) bind(name string, v Val) *SpecEnv {
	n := *env
	n.vars = make(map[string]Val, len(env.vars)+1)
	for k, x := range env.vars {
		n.vars[k] = x
	}
	n.vars[name] = v
	return &n
}

func (env *SpecEnv) evalBool(e SExpr) Term {
	v := env.eval(e)
	sc, ok := v.(Sc)
	if !ok || sc.T.Sort != SBool {
		env.fail("expected boolean, got %T in %s", v, specString(e))
	}
	return sc.T
}

func (env *SpecEnv) evalInt(e SExpr) Term {
	v := env.eval(e)
	sc, ok := v.(Sc)
	if !ok || sc.T.Sort != SInt {
		env.fail("expected integer in %s, got %v", specString(e), v)
	}
	return sc.T
}

func (env *SpecEnv) eval(e SExpr) Val {
	in := env.in
	switch x := e.(type) {
	case *SIntLit:
		return Sc{BigLit(x.V)}
	case *SBoolLit:
		return Sc{BoolLit(x.V)}
	case *SStrLit:
		return Sc{in.strLit(x.V)}
	case *SIdent:
		return env.lookup(x.Name)
	case *SUn:
		switch x.Op {
		case "!":
			return Sc{Not(env.evalBool(x.X))}
		case "-":
			return Sc{Neg(env.evalInt(x.X))}
		case "*":
			p, ok := env.eval(x.X).(PtrV)
			if !ok {
				env.fail("* on non-pointer %s", specString(x.X))
			}
			return in.load(env.st, p.To, env.f)
		}
	case *SBin:
		return env.evalBin(x)
	case *SSel:
		return env.evalSel(x)
	case *SIndex:
		return env.evalIndex(x)
	case *SSlice:
		return env.evalSlice(x)
	case *SCall:
		return env.evalCall(x)
	case *SQuant:
		return env.evalQuant(x)
	}
	env.fail("cannot evaluate %s", specString(e))
	return nil
}

func (env *SpecEnv) lookup(name string) Val {
	in := env.in
	if v, ok := env.vars[name]; ok {
		return v
	}
	if le, ok := env.lets[name]; ok {
		return env.eval(le)
	}
	switch name {
	case "nil":
		return nilMarker{}
	case "MAX":
		return Sc{BigLit(new(big.Int).Sub(pow2(64), big.NewInt(1)))}
	case "MaxInt64":
		return Sc{BigLit(new(big.Int).Sub(pow2(63), big.NewInt(1)))}
	}
	if v, ok := env.st.ghost[name]; ok {
		return v
	}
	// frame variable by name at the scope position
	if env.f != nil && env.useCur {
		if obj := env.f.lookupVar(name, env.pos); obj != nil {
			if c := env.f.cellOf(obj); c != nil {
				return in.load(env.st, c, env.f)
			}
		}
	}
	// package-level object
	if p := in.W.pkgByPath(env.pkgPath); p != nil {
		if obj := p.Types.Scope().Lookup(name); obj != nil {
			return env.objVal(obj)
		}
	}
	env.fail("unknown identifier %q", name)
	return nil
}

type nilMarker struct{}

func (env *SpecEnv) objVal(obj types.Object) Val {
	in := env.in
	switch o := obj.(type) {
	case *types.Const:
		if v, ok := in.constVal(o.Val(), o.Type()); ok {
			return v
		}
		if o.Val().Kind() == constant.Float {
			env.fail("float constant %s", o.Name())
		}
	case *types.Var:
		return in.globalVar(o, env.f)
	}
	env.fail("object %s not usable in spec", obj.Name())
	return nil
}

func (f *Frame) lookupVar(name string, pos token.Pos) types.Object {
	if f == nil {
		return nil
	}
	sc := f.pkg.Types.Scope().Innermost(pos)
	if sc == nil {
		return nil
	}
	_, obj := sc.LookupParent(name, pos)
	if v, ok := obj.(*types.Var); ok {
		return v
	}
	// a position at the very end of the last statement of a case clause lies outside the clause's
	// scope (scope extents are half-open): look from the last position inside the statement
	if sc2 := f.pkg.Types.Scope().Innermost(pos - 1); sc2 != nil && sc2 != sc {
		if _, obj := sc2.LookupParent(name, pos-1); obj != nil {
			if v, ok := obj.(*types.Var); ok {
				return v
			}
		}
	}
	if os.Getenv("GOVC_DEBUG_LOOKUP") != "" {
		fmt.Fprintf(os.Stderr, "lookupVar(%q) at %s: scope %v -> %v\n", name, f.in.W.Fset.Position(pos), sc, obj)
	}
	return nil
}

func (env *SpecEnv) evalBin(x *SBin) Val {
	switch x.Op {
	case "&&":
		return Sc{And(env.evalBool(x.L), env.evalBool(x.R))}
	case "||":
		return Sc{Or(env.evalBool(x.L), env.evalBool(x.R))}
	case "==>":
		return Sc{Implies(env.evalBool(x.L), env.evalBool(x.R))}
	case "<==>":
		return Sc{Eq(env.evalBool(x.L), env.evalBool(x.R))}
	case "==", "!=":
		l, r := env.eval(x.L), env.eval(x.R)
		t := env.specEq(l, r, x)
		if x.Op == "!=" {
			t = Not(t)
		}
		return Sc{t}
	case "<", "<=", ">", ">=":
		a, b := env.evalInt(x.L), env.evalInt(x.R)
		switch x.Op {
		case "<":
			return Sc{Lt(a, b)}
		case "<=":
			return Sc{Le(a, b)}
		case ">":
			return Sc{Gt(a, b)}
		default:
			return Sc{Ge(a, b)}
		}
	case "+":
		l := env.eval(x.L)
		if sc, ok := l.(Sc); ok && sc.T.Sort == SStr {
			r := env.eval(x.R).(Sc)
			return Sc{env.in.strConcat(sc.T, r.T)}
		}
		return Sc{Add(l.(Sc).T, env.evalInt(x.R))}
	case "-":
		return Sc{Sub(env.evalInt(x.L), env.evalInt(x.R))}
	case "*":
		return Sc{Mul(env.evalInt(x.L), env.evalInt(x.R))}
	case "/":
		return Sc{EDiv(env.evalInt(x.L), env.evalInt(x.R))}
	case "%":
		return Sc{EMod(env.evalInt(x.L), env.evalInt(x.R))}
	case "<<":
		a, b := env.evalInt(x.L), env.evalInt(x.R)
		if b.IsLit() {
			return Sc{Mul(a, BigLit(pow2(uint(b.lit.Uint64()))))}
		}
	case "|", "&", "^":
		a, b := env.evalInt(x.L), env.evalInt(x.R)
		if a.IsLit() && b.IsLit() {
			r := new(big.Int)
			switch x.Op {
			case "|":
				r.Or(a.lit, b.lit)
			case "&":
				r.And(a.lit, b.lit)
			default:
				r.Xor(a.lit, b.lit)
			}
			return Sc{BigLit(r)}
		}
		// narrow bit operations: expand over 8 bits (Permissions)
		var op token.Token
		switch x.Op {
		case "|":
			op = token.OR
		case "&":
			op = token.AND
		default:
			op = token.XOR
		}
		fr := env.f
		if fr == nil {
			fr = &Frame{in: env.in}
		}
		return Sc{fr.bitop(op, a, b, 8, env.st)}
	}
	env.fail("operator %s", x.Op)
	return nil
}

// specEq: structural equality between spec values.
func (env *SpecEnv) specEq(l, r Val, at SExpr) Term {
	in := env.in
	if _, ok := r.(nilMarker); ok {
		return env.isNil(l)
	}
	if _, ok := l.(nilMarker); ok {
		return env.isNil(r)
	}
	switch a := l.(type) {
	case Sc:
		b, ok := r.(Sc)
		if !ok {
			// Str vs byte slice
			if sl, ok2 := r.(SliceV); ok2 && a.T.Sort == SStr {
				return Eq(a.T, in.mkStr(sl, env.st, env.f))
			}
			env.fail("== between %T and %T in %s", l, r, specString(at))
		}
		if a.T.Sort != b.T.Sort {
			env.fail("== between sorts %s and %s in %s", a.T.Sort, b.T.Sort, specString(at))
		}
		if a.T.Sort == SStr && !strings.Contains(a.T.S, "!q") && !strings.Contains(b.T.S, "!q") && a.T.S != b.T.S {
			// extensionality instance for the two compared byte strings (a valid axiom instance)
			in.assumeGlobal(strExtAxiom(a.T, b.T))
		}
		return Eq(a.T, b.T)
	case ArrV:
		b, ok := r.(ArrV)
		if !ok {
			env.fail("== array vs %T", r)
		}
		if a.N > 0 && a.N <= 64 && elemSortOf(a.T.Sort) == SInt {
			// compare only the live indices (arrays are total in SMT)
			var cs []Term
			for i := int64(0); i < a.N; i++ {
				cs = append(cs, Eq(Select(a.T, IntLit(i)), Select(b.T, IntLit(i))))
			}
			return And(cs...)
		}
		return Eq(a.T, b.T)
	case SliceV:
		switch b := r.(type) {
		case SliceV:
			// content equality
			j := Term{S: "j!eq", Sort: SInt}
			ca, cb := in.regionContent(env.st, a.Reg, env.f), in.regionContent(env.st, b.Reg, env.f)
			return And(Eq(a.Len, b.Len), Forall([]Term{j}, Implies(And(Le(IntLit(0), j), Lt(j, a.Len)),
				Eq(Select(ca, Add(a.Off, j)), Select(cb, Add(b.Off, j))))))
		case Sc:
			return env.specEq(r, l, at)
		}
	case StructV:
		b, ok := r.(StructV)
		if !ok {
			env.fail("== struct vs %T", r)
		}
		var cs []Term
		for i := range a.F {
			if isSyncType(a.Typ.Field(i).Type()) {
				continue
			}
			cs = append(cs, env.specEq(a.F[i], b.F[i], at))
		}
		return And(cs...)
	case MapV:
		b, ok := r.(MapV)
		if !ok {
			env.fail("== map vs %T", r)
		}
		ma, mb := in.load(env.st, a.M, env.f).(MapC), in.load(env.st, b.M, env.f).(MapC)
		return And(Eq(ma.Has, mb.Has), Eq(ma.Val, mb.Val))
	case MapC:
		b := r.(MapC)
		return And(Eq(a.Has, b.Has), Eq(a.Val, b.Val))
	case PtrV:
		b, ok := r.(PtrV)
		if ok && a.To == b.To {
			return Eq(a.Nil, b.Nil)
		}
		if ok && a.To.Typ != nil && b.To.Typ != nil && in.isValuelike(a.To.Typ) && in.isValuelike(b.To.Typ) {
			// valuelike pointers compare by (nil flag, pointee value)
			pt := types.NewPointer(a.To.Typ)
			return Eq(in.freeze(a, pt, env.st, env.f), in.freeze(b, pt, env.st, env.f))
		}
		if ok {
			return Eq(in.refOf(a), in.refOf(b))
		}
	}
	env.fail("== on %T / %T in %s", l, r, specString(at))
	return Term{}
}

func (env *SpecEnv) isNil(v Val) Term {
	switch x := v.(type) {
	case SliceV:
		return x.Nil
	case PtrV:
		return x.Nil
	case MapV:
		return x.Nil
	case Sc:
		switch x.T.Sort {
		case SErr:
			return Eq(x.T, env.in.errNil())
		case "Iface":
			env.in.D.declareOnce("iface_nil", "(declare-const iface_nil Iface)")
			return Eq(x.T, Term{S: "iface_nil", Sort: "Iface"})
		case SStr:
			return App("snil", SBool, x.T)
		}
	}
	env.fail("nil test on %T", v)
	return Term{}
}

func (env *SpecEnv) evalSel(x *SSel) Val {
	in := env.in
	// package-qualified name?
	if id, ok := x.X.(*SIdent); ok {
		if _, isVar := env.vars[id.Name]; !isVar {
			if pk := in.W.importedPkg(env.pkgPath, id.Name); pk != nil {
				if env.f == nil || env.f.lookupVar(id.Name, env.pos) == nil || !env.useCur {
					obj := pk.Scope().Lookup(x.Name)
					if obj == nil {
						env.fail("%s.%s not found", id.Name, x.Name)
					}
					return env.objVal(obj)
				}
			}
		}
	}
	base := env.eval(x.X)
	if p, ok := base.(PtrV); ok {
		base = in.load(env.st, p.To, env.f)
	}
	sv, ok := base.(StructV)
	if !ok {
		env.fail("field %s of non-struct %T (%s)", x.Name, base, specString(x.X))
	}
	if v, ok := structField(sv, x.Name, in, env); ok {
		return v
	}
	env.fail("no field %s in %s", x.Name, specString(x.X))
	return nil
}

func structField(sv StructV, name string, in *Interp, env *SpecEnv) (Val, bool) {
	for i := 0; i < sv.Typ.NumFields(); i++ {
		if sv.Typ.Field(i).Name() == name {
			return sv.F[i], true
		}
	}
	// promoted through embedded fields
	for i := 0; i < sv.Typ.NumFields(); i++ {
		if sv.Typ.Field(i).Embedded() {
			inner := sv.F[i]
			if p, ok := inner.(PtrV); ok {
				inner = in.load(env.st, p.To, env.f)
			}
			if isv, ok := inner.(StructV); ok {
				if v, ok := structField(isv, name, in, env); ok {
					return v, true
				}
			}
		}
	}
	return nil, false
}

func (env *SpecEnv) evalIndex(x *SIndex) Val {
	in := env.in
	base := env.eval(x.X)
	if p, ok := base.(PtrV); ok {
		base = in.load(env.st, p.To, env.f)
	}
	if x.I == nil {
		env.fail("x[] only allowed in modifies clauses")
	}
	switch b := base.(type) {
	case ArrV:
		i := env.evalInt(x.I)
		if b.ElemT != nil {
			return in.thaw(Select(b.T, i), b.ElemT, env.f)
		}
		return env.thawSort(Select(b.T, i))
	case SliceV:
		i := env.evalInt(x.I)
		et := b.Reg.Typ
		if et != nil && b.Reg.Kind != CRegion {
			// an array variable's cell doubling as the region of a slice over it
			if at, ok := et.Underlying().(*types.Array); ok {
				et = at.Elem()
			}
		}
		return env.thawElem(Select(in.regionContent(env.st, b.Reg, env.f), Add(b.Off, i)), et)
	case Sc:
		if b.T.Sort == SStr {
			return Sc{Select(App("sarr", ArrSort(SInt), b.T), env.evalInt(x.I))}
		}
		if strings.HasPrefix(b.T.Sort, "(Array ") {
			k := env.eval(x.I).(Sc).T
			return env.thawSort(Select(b.T, k))
		}
	case MapV:
		mc := in.load(env.st, b.M, env.f).(MapC)
		mt := b.M.Typ.Underlying().(*types.Map)
		k := env.freezeKey(env.eval(x.I), mt.Key())
		return in.thaw(Select(mc.Val, k), mt.Elem(), env.f)
	}
	env.fail("index on %T in %s", base, specString(x))
	return nil
}

func (env *SpecEnv) freezeKey(v Val, t types.Type) Term {
	if sl, ok := v.(SliceV); ok && isString(t) {
		return env.in.mkStr(sl, env.st, env.f)
	}
	return env.in.freeze(v, t, env.st, env.f)
}

// thawSort wraps a term of scalar sort; structured element sorts are not re-expanded in specs.
func (env *SpecEnv) thawSort(t Term) Val {
	if strings.HasPrefix(t.Sort, "(Array Int ") {
		return ArrV{T: t}
	}
	return Sc{t}
}

func (env *SpecEnv) thawElem(t Term, elem types.Type) Val {
	if elem == nil {
		return env.thawSort(t)
	}
	return env.in.thaw(t, elem, env.f)
}

func (env *SpecEnv) evalSlice(x *SSlice) Val {
	in := env.in
	base := env.eval(x.X)
	if p, ok := base.(PtrV); ok {
		base = in.load(env.st, p.To, env.f)
	}
	lo := IntLit(0)
	if x.Lo != nil {
		lo = env.evalInt(x.Lo)
	}
	switch b := base.(type) {
	case SliceV:
		hi := b.Len
		if x.Hi != nil {
			hi = env.evalInt(x.Hi)
		}
		return SliceV{Reg: b.Reg, Off: Add(b.Off, lo), Len: Sub(hi, lo), Cap: Sub(b.Cap, lo), Nil: TFalse}
	case Sc:
		if b.T.Sort == SStr {
			hi := App("slen", SInt, b.T)
			if x.Hi != nil {
				hi = env.evalInt(x.Hi)
			}
			return Sc{in.substr(b.T, lo, hi)}
		}
	case ArrV:
		hi := IntLit(b.N)
		if x.Hi != nil {
			hi = env.evalInt(x.Hi)
		}
		reg := in.newCell("specview", CRegion, nil)
		in.initial[reg] = ArrV{T: b.T}
		return SliceV{Reg: reg, Off: lo, Len: Sub(hi, lo), Cap: Sub(IntLit(b.N), lo), Nil: TFalse}
	}
	env.fail("slice of %T", base)
	return nil
}

// asStr converts a byte-slice / string / array value to a Str term.
func (env *SpecEnv) asStr(v Val) Term {
	switch b := v.(type) {
	case Sc:
		if b.T.Sort == SStr {
			return b.T
		}
	case SliceV:
		return env.in.mkStr(b, env.st, env.f)
	case ArrV:
		n := b.N
		if n == 0 {
			n = b.BN
		}
		if n == 0 {
			env.fail("str/asStr of an array value of unknown length (declare the binder with its named array type)")
		}
		return App("mkstr", SStr, b.T, IntLit(0), IntLit(n))
	}
	env.fail("cannot view %T as byte string", v)
	return Term{}
}

// bytesView returns (array, offset, length) of a byte-sequence value.
func (env *SpecEnv) bytesView(v Val) (arr, off, ln Term) {
	switch b := v.(type) {
	case Sc:
		if b.T.Sort == SStr {
			return App("sarr", ArrSort(SInt), b.T), IntLit(0), App("slen", SInt, b.T)
		}
	case SliceV:
		return env.in.regionContent(env.st, b.Reg, env.f), b.Off, b.Len
	case ArrV:
		if b.N == 0 && b.BN != 0 {
			return b.T, IntLit(0), IntLit(b.BN)
		}
		return b.T, IntLit(0), IntLit(b.N)
	case PtrV:
		return env.bytesView(env.in.load(env.st, b.To, env.f))
	}
	env.fail("not a byte sequence: %T", v)
	return
}

func be(arr, off Term, n int) Term {
	sum := IntLit(0)
	for k := 0; k < n; k++ {
		sum = Add(sum, Mul(BigLit(pow2(uint(8*(n-1-k)))), Select(arr, Add(off, IntLit(int64(k))))))
	}
	return sum
}

func (env *SpecEnv) evalCall(x *SCall) Val {
	in := env.in
	name := ""
	switch fn := x.Fun.(type) {
	case *SIdent:
		name = fn.Name
	case *SSel:
		switch b := fn.X.(type) {
		case *SIdent:
			name = b.Name + "." + fn.Name
		case *SSel:
			if id, ok := b.X.(*SIdent); ok {
				name = id.Name + "." + b.Name + "." + fn.Name
			}
		}
	}
	argn := func(n int) {
		if len(x.Args) != n {
			env.fail("%s expects %d arguments", name, n)
		}
	}
	switch name {
	case "old":
		argn(1)
		if env.old == nil {
			env.fail("old() not available here")
		}
		return env.snapshot(env.withState(env.old).eval(x.Args[0]), env.old, 0)
	case "at":
		// at(S, e): value of e in the named ghost snapshot S
		argn(2)
		id, ok := x.Args[0].(*SIdent)
		if !ok {
			env.fail("at(S, e): S must be a snapshot name")
		}
		if env.f == nil || env.f.snapshots[id.Name] == nil {
			// the path never passed the snapshot point: at(S,e) denotes e in the current state;
			// clauses using it must be guarded by a condition that is false on such paths
			return env.eval(x.Args[1])
		}
		ss := env.f.snapshots[id.Name]
		return env.snapshot(env.withState(ss).eval(x.Args[1]), ss, 0)
	case "entry":
		// entry(N, e): value of e when loop N was first entered
		argn(2)
		n, ok := x.Args[0].(*SIntLit)
		if !ok || env.f == nil || env.f.loopEntries[int(n.V.Int64())] == nil {
			env.fail("entry(N, e): loop N has not been entered")
		}
		es := env.f.loopEntries[int(n.V.Int64())]
		return env.snapshot(env.withState(es).eval(x.Args[1]), es, 0)
	case "pre":
		argn(1)
		if env.pre == nil {
			env.fail("pre() is only available in loop asserts")
		}
		return env.snapshot(env.withState(env.pre).eval(x.Args[0]), env.pre, 0)
	case "len":
		argn(1)
		v := env.eval(x.Args[0])
		if p, ok := v.(PtrV); ok {
			v = in.load(env.st, p.To, env.f)
		}
		switch b := v.(type) {
		case SliceV:
			return Sc{b.Len}
		case ArrV:
			return Sc{IntLit(b.N)}
		case Sc:
			if b.T.Sort == SStr {
				return Sc{App("slen", SInt, b.T)}
			}
		case MapV:
			return Sc{in.load(env.st, b.M, env.f).(MapC).Card}
		}
		env.fail("len of %T", v)
	case "cap":
		argn(1)
		return Sc{env.eval(x.Args[0]).(SliceV).Cap}
	case "ite":
		argn(3)
		c := env.evalBool(x.Args[0])
		a, b := env.eval(x.Args[1]), env.eval(x.Args[2])
		as, aok := a.(Sc)
		bs, bok := b.(Sc)
		if !aok || !bok {
			// byte strings (slices / arrays / Str): compare as Str
			return Sc{Ite(c, env.asStr(a), env.asStr(b))}
		}
		return Sc{Ite(c, as.T, bs.T)}
	case "min":
		argn(2)
		return Sc{Min(env.evalInt(x.Args[0]), env.evalInt(x.Args[1]))}
	case "max":
		argn(2)
		return Sc{Max(env.evalInt(x.Args[0]), env.evalInt(x.Args[1]))}
	case "be64", "be16", "be32":
		argn(2)
		av := env.eval(x.Args[0])
		arr, off, _ := env.bytesView(av)
		n := map[string]int{"be64": 8, "be16": 2, "be32": 4}[name]
		pos := Add(off, env.evalInt(x.Args[1]))
		if sc, isStr := av.(Sc); isStr && sc.T.Sort == SStr && !strings.Contains(arr.S, "!q") && !strings.Contains(pos.S, "!q") {
			// the bytes of a byte string are bytes (stated for the ground bytes read here)
			for k := 0; k < n; k++ {
				b := Select(arr, Add(pos, IntLit(int64(k))))
				in.assumeGlobal(And(Le(IntLit(0), b), Le(b, IntLit(255))))
			}
		}
		return Sc{be(arr, pos, n)}
	case "has":
		argn(2)
		m := env.eval(x.Args[0])
		switch mm := m.(type) {
		case MapV:
			mc := in.load(env.st, mm.M, env.f).(MapC)
			mt := mm.M.Typ.Underlying().(*types.Map)
			return Sc{Select(mc.Has, env.freezeKey(env.eval(x.Args[1]), mt.Key()))}
		case Sc:
			return Sc{Select(mm.T, env.eval(x.Args[1]).(Sc).T)}
		}
		env.fail("has() on %T", m)
	case "setsum":
		// setsum(W, S, extra...): the sum of W(k, extra...) over the members k of the set S (a
		// visitedN ghost set of a map range, or the key set keys(m) of a map).  Uninterpreted, with
		// the two laws of a finite sum: empty set -> 0; adding a non-member k adds W(k, extra...).
		if len(x.Args) < 2 {
			env.fail("setsum(W, S, extra...)")
		}
		wid, ok := x.Args[0].(*SIdent)
		if !ok {
			env.fail("setsum: first argument must name a spec function")
		}
		wf := in.W.specFunc(env.pkgPath, wid.Name)
		if wf == nil || len(wf.Params) != len(x.Args)-1 {
			env.fail("setsum: %s must be a spec function of (key, extra...)", wid.Name)
		}
		sv, ok := env.eval(x.Args[1]).(Sc)
		if !ok || !strings.HasPrefix(sv.T.Sort, "(Array ") || !strings.HasSuffix(sv.T.Sort, " Bool)") {
			env.fail("setsum: second argument must be a set (visitedN or keys(m))")
		}
		ks := strings.TrimSuffix(strings.TrimPrefix(sv.T.Sort, "(Array "), " Bool)")
		ts := []Term{sv.T}
		sorts := []string{sv.T.Sort}
		for _, a := range x.Args[2:] {
			t := env.evalInt(a)
			ts = append(ts, t)
			sorts = append(sorts, SInt)
		}
		fn := "setsum_" + sanitize(wf.Pkg) + "_" + wf.Name
		in.D.declareFun(fn, sorts, SInt)
		if !in.D.seen["setsumax:"+fn] {
			in.D.seen["setsumax:"+fn] = true
			sV := Term{S: "S!ss", Sort: sv.T.Sort}
			kV := Term{S: "k!ss", Sort: ks}
			var ex []Term
			sub := &SpecEnv{in: in, f: env.f, st: env.st, old: env.old, vars: map[string]Val{}, pkgPath: env.pkgPath, depth: env.depth + 1}
			call := &SCall{Fun: &SIdent{wid.Name}, Args: []SExpr{&SIdent{"k__ss"}}}
			sub.vars["k__ss"] = env.thawSort(kV)
			for i := range x.Args[2:] {
				e := Term{S: fmt.Sprintf("e%d!ss", i), Sort: SInt}
				ex = append(ex, e)
				nm := fmt.Sprintf("e%d__ss", i)
				sub.vars[nm] = Sc{e}
				call.Args = append(call.Args, &SIdent{nm})
			}
			w := sub.evalInt(call)
			empty := Term{S: fmt.Sprintf("((as const %s) false)", sv.T.Sort), Sort: sv.T.Sort}
			a1 := Eq(App(fn, SInt, append([]Term{empty}, ex...)...), IntLit(0))
			if len(ex) > 0 {
				a1 = Forall(ex, a1, []Term{App(fn, SInt, append([]Term{empty}, ex...)...)})
			}
			grown := App(fn, SInt, append([]Term{Store(sV, kV, TTrue)}, ex...)...)
			a2 := Forall(append([]Term{sV, kV}, ex...), Implies(Not(Select(sV, kV)), Eq(grown, Add(App(fn, SInt, append([]Term{sV}, ex...)...), w))), []Term{grown})
			in.D.declareOnce("setsumax1:"+fn, fmt.Sprintf("(assert %s)", a1.S))
			in.D.declareOnce("setsumax2:"+fn, fmt.Sprintf("(assert %s)", a2.S))
			in.note("setsum: uninterpreted finite sum over a set with its two defining laws (empty set, adding a non-member)")
		}
		return Sc{App(fn, SInt, ts...)}
	case "keys":
		// keys(m): the key set of a map as a set value
		argn(1)
		if mm, ok := env.eval(x.Args[0]).(MapV); ok {
			mc := in.load(env.st, mm.M, env.f).(MapC)
			return Sc{mc.Has}
		}
		env.fail("keys() of a non-map")
	case "window.Window", "arrayview":
		// conversion of a byte-slice view to an array value: the content shifted to index 0
		argn(1)
		arr, off, _ := env.bytesView(env.eval(x.Args[0]))
		if off.IsLit() && off.lit.Sign() == 0 {
			return ArrV{T: arr}
		}
		return ArrV{T: App("ashift", ArrSort(SInt), arr, off)}
	case "dbmap":
		// dbmap(d): the ghost key/value content of database d
		argn(1)
		dv := env.eval(x.Args[0])
		if p, isPtr := dv.(PtrV); isPtr {
			// a concrete database behind a pointer (*pebble.Database): same identification as the externs use
			in.D.declareSort("Iface")
			in.D.declareFun("box_Ref", []string{SRef}, "Iface")
			return MapV{M: in.dbCell(App("box_Ref", "Iface", in.refOf(p))), Nil: TFalse}
		}
		d, ok := dv.(Sc)
		if !ok || d.T.Sort != "Iface" {
			env.fail("dbmap() of a non-database value")
		}
		return MapV{M: in.dbCell(d.T), Nil: TFalse}
	case "bput", "bdel", "bval":
		// net effect of a (pending) write batch on key k
		argn(2)
		bv := env.eval(x.Args[0])
		if p, ok := bv.(PtrV); ok {
			bv = in.load(env.st, p.To, env.f)
		}
		b, ok := bv.(BatchV)
		if !ok {
			env.fail("%s() of a non-batch value %T", name, bv)
		}
		k := env.asStr(env.eval(x.Args[1]))
		touched, isPut, val := batchEffect(b, k)
		switch name {
		case "bput":
			return Sc{And(touched, isPut)}
		case "bdel":
			return Sc{And(touched, Not(isPut))}
		}
		if val.S == "" {
			val = in.strLit("")
		}
		return Sc{val}
	case "as":
		// as(T, x): x, an interface value or pointer, viewed as a T record: the pointee when x holds a
		// pointer, an arbitrary T otherwise (e.g. the nil result of an error path, where the clause
		// is guarded anyway)
		argn(2)
		tn := specString(x.Args[0])
		t := in.W.lookupType(env.pkgPath, tn)
		if t == nil {
			env.fail("as: unknown type %s", tn)
		}
		switch v := env.eval(x.Args[1]).(type) {
		case PtrV:
			return in.load(env.st, v.To, env.f)
		default:
			return in.freshVal("as_"+sanitize(tn), t, env.f)
		}
	case "bit":
		// bit(b, i): membership of index i in a set.Bits value (declared opaque)
		argn(2)
		b, ok := env.eval(x.Args[0]).(Sc)
		if !ok {
			env.fail("bit() of a non-Bits value")
		}
		in.D.declareFun("bits_contains", []string{b.T.Sort, SInt}, SBool)
		return Sc{App("bits_contains", SBool, b.T, env.evalInt(x.Args[1]))}
	case "bigval":
		// bigval(p): the mathematical value of a *big.Int
		argn(1)
		v := env.eval(x.Args[0])
		if p, ok := v.(PtrV); ok {
			v = in.load(env.st, p.To, env.f)
		}
		sc, ok := v.(Sc)
		if !ok || sc.T.Sort != SInt {
			env.fail("bigval() of %T", v)
		}
		return sc
	case "bebytes":
		// bebytes(b): big-endian unsigned value of a byte sequence of constant length (<= 64)
		argn(1)
		arr, off, ln := env.bytesView(env.eval(x.Args[0]))
		if !ln.IsLit() || ln.lit.Int64() > 64 {
			env.fail("bebytes: length must be a constant <= 64")
		}
		return Sc{be(arr, off, int(ln.lit.Int64()))}
	case "cat":
		argn(2)
		return Sc{App("sconcat", SStr, env.asStr(env.eval(x.Args[0])), env.asStr(env.eval(x.Args[1])))}
	case "gint":
		// gint("name", obj): a named ghost (mathematical) integer attached to an object; nil may be
		// given as the object for a global ghost counter
		argn(2)
		return Sc{in.load(env.st, env.gintCell(x), env.f).(Sc).T}
	case "gmap":
		// gmap("name", obj): a named ghost map (bytes -> bytes) attached to an object (an interface
		// value or a pointer); only contracts read and write it
		argn(2)
		lit, ok := x.Args[0].(*SStrLit)
		if !ok {
			env.fail("gmap: the first argument is a string literal naming the ghost map")
		}
		var key string
		switch o := env.eval(x.Args[1]).(type) {
		case Sc:
			key = o.T.S
		case PtrV:
			key = in.refOf(o).S
		default:
			env.fail("gmap: object is %T (expected an interface value or a pointer)", o)
		}
		if in.dbCells == nil {
			in.dbCells = map[string]*Cell{}
		}
		ck := "gmap:" + lit.V + ":" + key
		c, ok := in.dbCells[ck]
		if !ok {
			c = in.newCell("g_"+lit.V+"("+trunc(key, 20)+")", CMap, dbMapType)
			in.dbCells[ck] = c
			if po, isPtr := env.eval(x.Args[1]).(PtrV); isPtr {
				if in.ghostOwner == nil {
					in.ghostOwner = map[*Cell]*Cell{}
				}
				in.ghostOwner[c] = po.To
			}
		}
		return MapV{M: c, Nil: TFalse}
	case "dbhealthy":
		argn(1)
		d, ok := env.eval(x.Args[0]).(Sc)
		if !ok || d.T.Sort != "Iface" {
			env.fail("dbhealthy() of a non-database value")
		}
		return Sc{in.dbHealthy(d.T)}
	case "hexenc", "hexdec":
		argn(1)
		in.declareHex()
		return Sc{App(map[string]string{"hexenc": "hex_enc", "hexdec": "hex_dec"}[name], SStr, env.asStr(env.eval(x.Args[0])))}
	case "hexok":
		argn(1)
		in.declareHex()
		return Sc{App("hex_ok", SBool, env.asStr(env.eval(x.Args[0])))}
	case "checksum":
		argn(2)
		in.declareChecksum()
		return Sc{App("checksum", SStr, env.asStr(env.eval(x.Args[0])), env.evalInt(x.Args[1]))}
	case "hasprefix":
		argn(2)
		return Sc{in.hasPrefixUF(env.asStr(env.eval(x.Args[0])), env.asStr(env.eval(x.Args[1])))}
	case "str":
		argn(1)
		return Sc{env.asStr(env.eval(x.Args[0]))}
	case "is":
		argn(2)
		e1 := env.eval(x.Args[0]).(Sc).T
		e2 := env.eval(x.Args[1]).(Sc).T
		return Sc{Or(Eq(e1, e2), App("err_wraps", SBool, e1, e2))}
	case "isnil":
		argn(1)
		return Sc{env.isNil(env.eval(x.Args[0]))}
	case "int":
		argn(1)
		return env.eval(x.Args[0])
	}
	// conversion to a named array type (ids.ID(b), codec.Address(b)): the bytes shifted to index 0
	if len(x.Args) == 1 && in.W.specFunc(env.pkgPath, name) == nil {
		if t := in.W.lookupType(env.pkgPath, name); t != nil {
			if at, ok := t.Underlying().(*types.Array); ok {
				arr, off, _ := env.bytesView(env.eval(x.Args[0]))
				if off.IsLit() && off.lit.Sign() == 0 {
					return ArrV{T: arr, N: at.Len()}
				}
				return ArrV{T: App("ashift", ArrSort(SInt), arr, off), N: at.Len()}
			}
		}
	}
	// spec function?
	if sf := in.W.specFunc(env.pkgPath, name); sf != nil {
		return env.callSpecFunc(sf, x)
	}
	// pure Go function / method with a `pure` contract: T.M(recv, args...) or F(args...)
	if c := in.W.pureContract(env.pkgPath, name); c != nil {
		fn := in.W.funcObj(c)
		if fn == nil {
			env.fail("cannot resolve pure function %s", name)
		}
		var args []Val
		for _, a := range x.Args {
			args = append(args, env.eval(a))
		}
		var recv Val
		if fn.Type().(*types.Signature).Recv() != nil {
			if len(args) == 0 {
				env.fail("%s needs a receiver argument", name)
			}
			recv, args = args[0], args[1:]
		}
		fr := env.f
		if fr == nil {
			fr = &Frame{in: in}
		}
		vs := fr.pureApply(c, fn, recv, args, env.st)
		if len(vs) == 1 {
			return vs[0]
		}
		return TupleV{vs}
	}
	switch name {
	case "fst", "snd":
		argn(1)
		tv, ok := env.eval(x.Args[0]).(TupleV)
		if !ok || len(tv.Vs) < 2 {
			env.fail("%s of non-tuple", name)
		}
		if name == "fst" {
			return tv.Vs[0]
		}
		return tv.Vs[1]
	}
	env.fail("unknown spec function %q", name)
	return nil
}

func (env *SpecEnv) callSpecFunc(sf *SpecFunc, x *SCall) Val {
	in := env.in
	if len(x.Args) != len(sf.Params) {
		env.fail("%s expects %d arguments", sf.Name, len(sf.Params))
	}
	args := make([]Val, len(x.Args))
	for i, a := range x.Args {
		args[i] = env.eval(a)
	}
	if sf.Body != nil && sf.Opaque {
		return env.callOpaqueSpecFunc(sf, args)
	}
	if sf.Body != nil {
		// macro expansion in a clean environment (no access to caller's variables)
		if env.depth > 40 {
			env.fail("spec function recursion too deep in %s", sf.Name)
		}
		sub := &SpecEnv{in: in, f: env.f, st: env.st, old: env.old, vars: map[string]Val{}, pkgPath: sf.Pkg, depth: env.depth + 1}
		for i, p := range sf.Params {
			sub.vars[p.Name] = args[i]
		}
		return sub.eval(sf.Body)
	}
	// uninterpreted
	var ts []Term
	var sorts []string
	for i, a := range args {
		t := env.termOf(a, sf.Params[i].Type)
		ts = append(ts, t)
		sorts = append(sorts, t.Sort)
	}
	rs := env.sortOfName(sf.Result)
	fn := "sf_" + sanitize(sf.Pkg) + "_" + sf.Name
	in.D.declareFun(fn, sorts, rs)
	return env.thawSort(App(fn, rs, ts...))
}

func (env *SpecEnv) termOf(v Val, typ string) Term {
	switch b := v.(type) {
	case Sc:
		return b.T
	case ArrV:
		return b.T
	case SliceV:
		if typ == "[]byte" || typ == "string" || typ == "bytes" {
			return env.asStr(v)
		}
	case MapV:
		_ = b
	}
	if typ == "bytes" || typ == "string" || typ == "[]byte" {
		return env.asStr(v)
	}
	env.fail("cannot pass %T as %s to an uninterpreted spec function", v, typ)
	return Term{}
}

// sortOfName maps a type name used in specs to an SMT sort.
func (env *SpecEnv) sortOfName(name string) string {
	switch name {
	case "int", "int64", "uint64", "uint16", "uint8", "byte", "uint32", "int32", "uint":
		return SInt
	case "bool":
		return SBool
	case "string", "[]byte", "bytes":
		return SStr
	case "error":
		return SErr
	case "intarr", "[]uint64", "[]int", "[]int64", "[]uint16":
		return ArrSort(SInt)
	case "intarr2":
		return ArrSort(ArrSort(SInt))
	}
	if strings.HasPrefix(name, "[]") {
		et := env.sortOfName(name[2:])
		return ArrSort(et)
	}
	if strings.HasPrefix(name, "*") {
		if t := env.in.W.lookupType(env.pkgPath, name[1:]); t != nil {
			return env.in.sortOf(types.NewPointer(t))
		}
	}
	t := env.in.W.lookupType(env.pkgPath, name)
	if t == nil {
		env.fail("unknown type %q", name)
	}
	return env.in.sortOf(t)
}

func (env *SpecEnv) evalQuant(x *SQuant) Val {
	in := env.in
	sub := env
	var vars []Term
	var guards []Term
	for _, b := range x.Vars {
		s := env.sortOfName(b.Type)
		in.W.qn++
		v := Term{S: fmt.Sprintf("%s!q%d", b.Name, in.W.qn), Sort: s}
		vars = append(vars, v)
		var val Val = Sc{v}
		if strings.HasPrefix(s, "(Array Int ") {
			val = ArrV{T: v, BN: env.arrLenOfName(b.Type), ElemT: env.elemGoType(b.Type)}
		}
		if strings.HasPrefix(b.Type, "*") {
			// pointer binder (pointers to value-like records): a structured value, so that fields
			// can be selected
			if t := in.W.lookupType(env.pkgPath, b.Type[1:]); t != nil && in.isValuelike(t) {
				val = in.thaw(v, types.NewPointer(t), env.f)
			}
		}
		sub = sub.bind(b.Name, val)
		// Go-typed binders range over the type's values
		switch b.Type {
		case "uint64", "uint":
			guards = append(guards, Le(IntLit(0), v), Le(v, BigLit(new(big.Int).Sub(pow2(64), big.NewInt(1)))))
		case "uint32":
			guards = append(guards, Le(IntLit(0), v), Lt(v, BigLit(pow2(32))))
		case "uint16":
			guards = append(guards, Le(IntLit(0), v), Lt(v, BigLit(pow2(16))))
		case "uint8", "byte":
			guards = append(guards, Le(IntLit(0), v), Lt(v, IntLit(256)))
		case "int64":
			guards = append(guards, Le(BigLit(new(big.Int).Neg(pow2(63))), v), Lt(v, BigLit(pow2(63))))
		case "string", "bytes", "[]byte":
			guards = append(guards, Le(IntLit(0), App("slen", SInt, v)))
		}
	}
	body := sub.evalBool(x.Body)
	if x.Forall {
		return Sc{Forall(vars, Implies(And(guards...), body))}
	}
	return Sc{Exists(vars, And(append(guards, body)...))}
}

// argTerm converts a spec value into the single term passed to an opaque spec function.
func (env *SpecEnv) argTerm(v Val, typ string) Term {
	switch b := v.(type) {
	case Sc:
		return b.T
	case ArrV:
		return b.T
	case SliceV:
		if typ == "[]byte" || typ == "string" || typ == "bytes" {
			return env.asStr(v)
		}
		if !(b.Off.IsLit() && b.Off.lit.Sign() == 0) {
			env.fail("slice argument with non-zero offset passed to opaque spec function")
		}
		return env.in.regionContent(env.st, b.Reg, env.f)
	}
	env.fail("cannot pass %T as %s to an opaque spec function", v, typ)
	return Term{}
}

// callOpaqueSpecFunc: the function is a declared symbol with axiom forall args. f(args) = body.
func (env *SpecEnv) callOpaqueSpecFunc(sf *SpecFunc, args []Val) Val {
	in := env.in
	var ts []Term
	for i, a := range args {
		ts = append(ts, env.argTerm(a, sf.Params[i].Type))
	}
	fn := "sf_" + sanitize(sf.Pkg) + "_" + sf.Name
	key := "opaque:" + fn
	rs := env.sortOfName(sf.Result)
	if !in.D.seen[key] {
		in.D.seen[key] = true
		var vars []Term
		var sorts []string
		sub := &SpecEnv{in: in, f: nil, st: &State{store: map[*Cell]Val{}, ghost: map[string]Val{}}, vars: map[string]Val{}, pkgPath: sf.Pkg, depth: env.depth + 1}
		for i, p := range sf.Params {
			v := Term{S: fmt.Sprintf("p%d!%s", i, sanitize(p.Name)), Sort: ts[i].Sort}
			vars = append(vars, v)
			sorts = append(sorts, v.Sort)
			if strings.HasPrefix(v.Sort, "(Array Int ") {
				sub.vars[p.Name] = ArrV{T: v, BN: sub.arrLenOfName(p.Type), ElemT: sub.elemGoType(p.Type)}
			} else {
				sub.vars[p.Name] = Sc{v}
			}
		}
		// declare first so that recursive definitions are possible
		in.D.lines = append(in.D.lines, fmt.Sprintf("(declare-fun %s (%s) %s)", fn, strings.Join(sorts, " "), rs))
		body := sub.eval(sf.Body)
		var bt Term
		switch b := body.(type) {
		case Sc:
			bt = b.T
		case ArrV:
			bt = b.T
		default:
			env.fail("opaque spec function %s: body is %T", sf.Name, body)
		}
		app := App(fn, rs, vars...)
		axiom := fmt.Sprintf("(assert %s)", Forall(vars, Eq(app, bt), []Term{app}).S)
		in.D.lines = append(in.D.lines, axiom)
		// quantifier-free rendering for counterexample search: a macro at the axiom's position
		var ps []string
		for _, v := range vars {
			ps = append(ps, fmt.Sprintf("(%s %s)", v.S, v.Sort))
		}
		if in.D.defines == nil {
			in.D.defines = map[string]string{}
			in.D.declSkip = map[string]bool{}
		}
		if in.D.opaqueAxiom == nil {
			in.D.opaqueAxiom = map[string]string{}
		}
		in.D.opaqueAxiom[axiom] = sf.Name
		kw := "define-fun"
		if sf.Rec {
			kw = "define-fun-rec"
		}
		in.D.defines[axiom] = fmt.Sprintf("(%s %s (%s) %s %s)", kw, fn, strings.Join(ps, " "), rs, bt.S)
		in.D.declSkip[fmt.Sprintf("(declare-fun %s (%s) %s)", fn, strings.Join(sorts, " "), rs)] = true
	}
	return env.thawSort(App(fn, rs, ts...))
}

// snapshot freezes the heap-dependent parts of a value (slice contents, map contents,
// pointer targets) as they are in state st, so that old(x)/pre(x)/entry(N,x) denote the
// value x had then even when x is a view whose content is looked up later.
func (env *SpecEnv) snapshot(v Val, st *State, depth int) Val {
	in := env.in
	if depth > 4 {
		return v
	}
	switch x := v.(type) {
	case SliceV:
		c := in.newCell("snap[]", CRegion, x.Reg.Typ)
		in.initial[c] = in.load(st, x.Reg, env.f)
		if orig, ok := in.frozenOf[x.Reg]; ok {
			if cur, ok2 := in.initial[c].(ArrV); ok2 && cur.T.S == App("sarr", ArrSort(SInt), orig).S {
				in.frozenOf[c] = orig
			}
		}
		return SliceV{Reg: c, Off: x.Off, Len: x.Len, Cap: x.Cap, Nil: x.Nil}
	case MapV:
		c := in.newCell("snap{}", CMap, x.M.Typ)
		in.initial[c] = in.load(st, x.M, env.f)
		return MapV{M: c, Nil: x.Nil}
	case PtrV:
		c := in.newCell("snap*", CVar, x.To.Typ)
		in.initial[c] = env.snapshot(in.load(st, x.To, env.f), st, depth+1)
		return PtrV{To: c, Nil: x.Nil}
	case StructV:
		nf := make([]Val, len(x.F))
		for i, fv := range x.F {
			nf[i] = env.snapshot(fv, st, depth+1)
		}
		return StructV{Typ: x.Typ, F: nf}
	}
	return v
}

// elemGoType: for a spec type name of the form []T or []*T with T a (structured) Go type of the
// package, the Go element type; nil otherwise (scalars, byte strings, nested arrays).
// arrLenOfName: the length of a named fixed-size array type (ids.ID, codec.Address), 0 otherwise.
func (env *SpecEnv) arrLenOfName(name string) int64 {
	if strings.HasPrefix(name, "[") || name == "bytes" || name == "string" {
		return 0
	}
	if t := env.in.W.lookupType(env.pkgPath, name); t != nil {
		if at, ok := t.Underlying().(*types.Array); ok {
			return at.Len()
		}
	}
	return 0
}

func (env *SpecEnv) elemGoType(name string) types.Type {
	if !strings.HasPrefix(name, "[]") {
		return nil
	}
	n := name[2:]
	ptr := strings.HasPrefix(n, "*")
	n = strings.TrimPrefix(n, "*")
	switch n {
	case "int", "int64", "uint64", "uint16", "uint8", "byte", "uint32", "int32", "uint", "bool", "string", "bytes", "error":
		return nil
	}
	if strings.HasPrefix(n, "[]") {
		return nil
	}
	t := env.in.W.lookupType(env.pkgPath, n)
	if t == nil {
		return nil
	}
	if _, isStruct := t.Underlying().(*types.Struct); !isStruct {
		return nil
	}
	if ptr {
		return types.NewPointer(t)
	}
	return t
}

// gintCell resolves the cell of a gint("name", obj) expression.
func (env *SpecEnv) gintCell(x *SCall) *Cell {
	in := env.in
	lit, ok := x.Args[0].(*SStrLit)
	if !ok {
		env.fail("gint: the first argument is a string literal naming the ghost integer")
	}
	key := "nil"
	var owner *Cell
	if id, isNil := x.Args[1].(*SIdent); !(isNil && id.Name == "nil") {
		switch o := env.eval(x.Args[1]).(type) {
		case Sc:
			key = o.T.S
		case PtrV:
			key = in.refOf(o).S
			owner = o.To
		default:
			env.fail("gint: object is %T (expected an interface value, a pointer or nil)", o)
		}
	}
	if in.dbCells == nil {
		in.dbCells = map[string]*Cell{}
	}
	ck := "gint:" + lit.V + ":" + key
	c, ok := in.dbCells[ck]
	if !ok {
		c = in.newCell("gi_"+lit.V+"("+trunc(key, 20)+")", CVar, nil)
		in.initial[c] = Sc{in.D.fresh("gi_"+lit.V, SInt)}
		in.dbCells[ck] = c
		if owner != nil {
			if in.ghostOwner == nil {
				in.ghostOwner = map[*Cell]*Cell{}
			}
			in.ghostOwner[c] = owner
		}
	}
	return c
}
