package main

// Property-specific replay drivers for stateful receivers: small Go tests (kept under
// /verif/replay/drivers, injected with `go test -overlay`, nothing written into /repo)
// that reach the abstract pre-state of a failed obligation through the public API and
// check the postcondition concretely on the real code.

import (
	"bytes"
	"context"
	"encoding/json"
	"os"
	"os/exec"
	"path/filepath"
	"regexp"
	"strings"
	"time"
)

type driverEntry struct {
	ObligationContains string `json:"obligation_contains"`
	SpecContains       string `json:"spec_contains"`
	PackageDir         string `json:"package_dir"`
	File               string `json:"file"`
	Run                string `json:"run"`
	What               string `json:"what"`
}

var driverOutRe = regexp.MustCompile(`GOVC-DRIVER-RESULT: (\{.*\})`)

func runDriver(id string, o *Obligation, inputs map[string]string, repo, verif string, cfg *PropConfig) (bool, interface{}) {
	data, err := os.ReadFile(filepath.Join(verif, "replay", "drivers", "index.json"))
	if err != nil {
		return false, "no replay drivers"
	}
	var entries []driverEntry
	if json.Unmarshal(data, &entries) != nil {
		return false, "bad driver index"
	}
	for _, e := range entries {
		if !strings.Contains(o.Name, e.ObligationContains) || (e.SpecContains != "" && !strings.Contains(o.Text, e.SpecContains)) {
			continue
		}
		src, err := os.ReadFile(filepath.Join(verif, "replay", "drivers", e.File))
		if err != nil {
			return false, err.Error()
		}
		dir, _ := os.MkdirTemp("", "govc-driver-")
		defer os.RemoveAll(dir)
		tf := filepath.Join(dir, e.File)
		os.WriteFile(tf, src, 0o644)
		pkgDir := filepath.Join(repo, e.PackageDir)
		ov := map[string]interface{}{"Replace": map[string]string{filepath.Join(pkgDir, "zz_govc_"+e.File): tf}}
		oj, _ := json.Marshal(ov)
		of := filepath.Join(dir, "overlay.json")
		os.WriteFile(of, oj, 0o644)
		ctx, cancel := context.WithTimeout(context.Background(), 240*time.Second)
		defer cancel()
		cmd := exec.CommandContext(ctx, "go", "test", "-overlay", of, "-vet=off", "-count=1", "-v", "-timeout", "120s", "-run", "^"+e.Run+"$", ".")
		cmd.Dir = pkgDir
		cmd.Env = append(os.Environ(), "GOFLAGS=-mod=mod", "GOPROXY=off")
		var buf bytes.Buffer
		cmd.Stdout = &buf
		cmd.Stderr = &buf
		runErr := cmd.Run()
		detail := map[string]interface{}{"driver": e.File, "what": e.What}
		m := driverOutRe.FindStringSubmatch(buf.String())
		if m == nil {
			detail["output"] = trunc(buf.String(), 1500)
			if runErr != nil {
				detail["error"] = runErr.Error()
			}
			return false, detail
		}
		var res map[string]interface{}
		json.Unmarshal([]byte(m[1]), &res)
		detail["result"] = res
		return res["violated"] == true, detail
	}
	return false, "no replay driver for this obligation"
}
