package main

func runDriver(id string, o *Obligation, inputs map[string]string, repo, verif string, cfg *PropConfig) (bool, interface{}) {
	return false, "no replay driver for this obligation"
}
