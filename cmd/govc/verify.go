package main

import (
	"fmt"
	"go/ast"
	"go/token"
	"go/types"
	"math/big"
	"path/filepath"
	"sort"
	"strings"
)

type FuncReport struct {
	Key         string
	Obligations []*Obligation
	Unsupported string
	Assumes     []string
	Paths       int
	Decls       []string
	Global      []Term
	Replay      *ReplayInfo
	D           *Decls
	Reveal      map[string]bool
}

// VerifyFunc generates all obligations for one function under contract.
func VerifyFunc(w *World, key string, c *Contract) (rep *FuncReport) {
	rep = &FuncReport{Key: key, Reveal: map[string]bool{}}
	for _, r := range c.Reveal {
		rep.Reveal[r] = true
	}
	for _, r := range c.RevealAsserts {
		rep.Reveal["assert:"+r] = true
	}
	in := NewInterp(w)
	in.topKey = key
	defer func() {
		if r := recover(); r != nil {
			if u, ok := r.(*Unsupported); ok {
				rep.Unsupported = u.Error()
			} else {
				panic(r)
			}
		}
		rep.Obligations = in.obls
		for a := range in.assumes {
			rep.Assumes = append(rep.Assumes, a)
		}
		sort.Strings(rep.Assumes)
		rep.Decls = in.D.lines
		rep.D = in.D
		rep.Global = in.global
		rep.Paths = in.pathCnt
		for _, o := range rep.Obligations {
			o.Decls = len(in.D.lines)
			o.Global = len(in.global)
		}
	}()
	fd, pk := w.funcDecl(key)
	if fd == nil || fd.Body == nil {
		panic(&Unsupported{Msg: "no body found for " + key})
	}
	f := &Frame{in: in, pkg: pk.P, decl: fd, key: key, vars: map[types.Object]*Cell{}, contract: c, tmap: map[string]types.Type{}}
	in.top = f
	st := &State{store: map[*Cell]Val{}, ghost: map[string]Val{}}
	// symbolic receiver / parameters
	fn := pk.P.TypesInfo.Defs[fd.Name].(*types.Func)
	sig := fn.Type().(*types.Signature)
	var recv Val
	if sig.Recv() != nil {
		recv = in.freshVal(sig.Recv().Name(), sig.Recv().Type(), f)
		if p, ok := recv.(PtrV); ok {
			p.Nil = TFalse
			recv = p
			in.note("receiver assumed non-nil")
		}
	}
	var args []Val
	for i := 0; i < sig.Params().Len(); i++ {
		p := sig.Params().At(i)
		name := p.Name()
		if name == "" || name == "_" {
			name = fmt.Sprintf("arg%d", i)
		}
		v := in.freshVal(name, p.Type(), f)
		if pv, ok := v.(PtrV); ok && !c.nilable(name) {
			pv.Nil = TFalse
			v = pv
			in.note("pointer parameters assumed non-nil unless declared `opt nilable`")
		}
		args = append(args, v)
	}
	f.bindParams(recv, args, st)
	in.inputs = collectInputs(f.params)
	rep.Replay = &ReplayInfo{W: w, Key: key, Contract: c, Params: f.params, Initial: in.initial, Sig: sig, PkgName: pk.P.Name,
		PkgPath: pk.P.PkgPath, PkgDir: filepath.Dir(w.Fset.Position(fd.Pos()).Filename), FuncName: fd.Name.Name, HasRecv: sig.Recv() != nil}
	in.note(fmt.Sprintf("slice lengths/capacities bounded by 2^47 (address space)"))
	// type invariants of receiver/params are part of requires (written explicitly in contracts)
	env := &SpecEnv{in: in, f: f, st: st, vars: map[string]Val{}, pkgPath: pk.P.PkgPath, lets: map[string]SExpr{}}
	for k, v := range f.params {
		env.vars[k] = v
	}
	for _, l := range c.Lets {
		env.lets[l.Name] = l.E
	}
	for _, r := range c.Requires {
		st.assume(inGroup(env.evalBool(r.E), clauseGroup(r.Props)))
	}
	for _, u := range c.Uses {
		found := false
		for _, lm := range w.Lemmas {
			if lm.Name == u && (lm.Pkg == c.Pkg || true) {
				lenv := &SpecEnv{in: in, st: st, vars: map[string]Val{}, pkgPath: lm.Pkg, lets: map[string]SExpr{}}
				h := lenv.evalBool(lm.E)
				if lm.Induct != "" {
					// the induction proves the statement for the induction variable >= 0
					if q, ok := lm.E.(*SQuant); ok {
						guarded := &SQuant{Forall: true, Vars: q.Vars, Body: &SBin{Op: "==>", L: &SBin{Op: ">=", L: &SIdent{Name: lm.Induct}, R: &SIntLit{V: bigZero()}}, R: q.Body}}
						h = lenv.evalBool(guarded)
					}
				}
				st.assume(inGroup(h, strings.TrimSpace(c.Opts["usesgroup"])))
				found = true
				if lm.Axiom {
					in.note("axiom (trusted lemma): " + lm.Name)
				}
				break
			}
		}
		if !found {
			panic(&Unsupported{Msg: "contract of " + key + " uses unknown lemma " + u})
		}
	}
	// monitor discipline (syntactic): `opt monitor m.l` -- the body starts with m.l.Lock() (or
	// RLock) immediately followed by the matching deferred Unlock, so the whole body is one
	// critical section of that mutex
	if mon := strings.TrimSpace(c.Opts["monitor"]); mon != "" {
		goal := TFalse
		if monitorBracketed(fd, mon) {
			goal = TTrue
		}
		in.obls = append(in.obls, &Obligation{Name: key + "#monitor", Func: key, Kind: "monitor", Pos: w.Fset.Position(fd.Pos()),
			Hyps: nil, Goal: goal, Text: "the whole body runs under " + mon + " (Lock; defer Unlock as the first two statements)"})
	}
	// vacuity: requires satisfiable (expected sat)
	in.obls = append(in.obls, &Obligation{Name: key + "#pre-sat", Func: key, Kind: "presat", Pos: w.Fset.Position(fd.Pos()),
		Hyps: append([]Term(nil), st.hyps...), Goal: TFalse, Expect: "sat", Text: "requires is satisfiable"})
	f.entry = st.clone()
	in.entryCellN = in.cellN
	outs := f.execBlock(fd.Body.List, st)
	// every `at call N assert` must have been generated at least once: an ordinal that matches no
	// reachable call would otherwise drop the assertion silently
	for ord := range c.Asserts {
		if !f.assertHit[ord] {
			panic(&Unsupported{Msg: fmt.Sprintf("contract of %s: `at call %d assert` matches no call reached by the symbolic execution", key, ord)})
		}
	}
	retIdx := 0
	for _, o := range outs {
		var rets []Val
		switch o.Kind {
		case ONormal:
			if sig.Results().Len() != 0 {
				if o.St.dead {
					continue
				}
				panic(&Unsupported{Msg: "fell off the end of " + key})
			}
		case OReturn:
			rets = o.Rets
		default:
			panic(&Unsupported{Msg: "break/continue escaped " + key})
		}
		if o.St.dead {
			continue
		}
		f.runDefers(o.St)
		if len(f.results) > 0 && len(rets) == len(f.results) {
			for i, cl := range f.results {
				rets[i] = in.load(o.St, cl, f)
			}
		}
		retIdx++
		f.checkPost(c, sig, o, rets, env.vars, retIdx)
	}
	return rep
}

func (c *Contract) nilable(name string) bool {
	for _, n := range strings.Fields(c.Opts["nilable"]) {
		if n == name {
			return true
		}
	}
	return false
}

func collectInputs(params map[string]Val) []InputSym {
	var out []InputSym
	var walk func(name string, v Val)
	walk = func(name string, v Val) {
		switch x := v.(type) {
		case Sc:
			out = append(out, InputSym{Name: name, Sym: x.T.S, Sort: x.T.Sort})
		case ArrV:
			out = append(out, InputSym{Name: name, Sym: x.T.S, Sort: x.T.Sort})
		case SliceV:
			out = append(out, InputSym{Name: name + ".len", Sym: x.Len.S, Sort: SInt})
			out = append(out, InputSym{Name: name + ".nil", Sym: x.Nil.S, Sort: SBool})
		case StructV:
			for i, fv := range x.F {
				walk(name+"."+x.Typ.Field(i).Name(), fv)
			}
		}
	}
	for _, k := range sortedKeys(params) {
		walk(k, params[k])
	}
	return out
}

func (f *Frame) checkPost(c *Contract, sig *types.Signature, o Outcome, rets []Val, pvars map[string]Val, retIdx int) {
	in := f.in
	st := o.St
	env := &SpecEnv{in: in, f: f, st: st, old: f.entry, vars: map[string]Val{}, pkgPath: f.pkg.PkgPath, lets: map[string]SExpr{}}
	for k, v := range pvars {
		env.vars[k] = v
	}
	for _, l := range c.Lets {
		env.lets[l.Name] = l.E
	}
	for i, v := range rets {
		env.vars[fmt.Sprintf("result%d", i)] = v
		if n := sig.Results().At(i).Name(); n != "" && n != "_" {
			env.vars[n] = v
		}
		if isErrorType(sig.Results().At(i).Type()) {
			if _, isParam := pvars["err"]; !isParam {
				// (a parameter named err keeps its name; the error result is then resultN only)
				env.vars["err"] = v
			}
		}
	}
	if len(rets) == 1 {
		env.vars["result"] = rets[0]
	}
	if o.Kind == OReturn {
		so := f.staticRetOrd(o.Pos)
		for _, d := range c.DeadReturns {
			if d == so {
				f.oblige(st, "post", fmt.Sprintf("%s#dead:return%d@ret%d", f.key, d, retIdx), o.Pos, TFalse, fmt.Sprintf("return statement %d is unreachable", d))
			}
		}
	}
	for i, e := range c.Ensures {
		if pt := propTags(e.Props); len(pt) > 0 && !hasProp(pt, currentProp) {
			continue
		}
		goal := env.evalBool(e.E)
		f.curGroup = clauseGroup(e.Props)
		f.oblige(st, "post", fmt.Sprintf("%s#post:%d@ret%d", f.key, i+1, retIdx), o.Pos, goal, e.Text)
		f.curGroup = ""
	}
	if !c.NoFrame {
		f.checkFrame(c, env, st, retIdx, o)
	}
	f.checkGhostFrame(c, env, st, retIdx, o)
}

// checkGhostFrame: ghost maps (database contents dbmap(d), named ghost maps gmap(..)) written by the
// body must be listed in `modifies` -- callers havoc exactly the modifies set, so a contract that
// changes a ghost map without declaring it would make its callers' proofs vacuous.  Checked for
// every function, `noframe` or not.
func (f *Frame) checkGhostFrame(c *Contract, env *SpecEnv, st *State, retIdx int, o Outcome) {
	in := f.in
	if len(in.dbCells) == 0 {
		return
	}
	allowed := map[*Cell]bool{}
	entryEnv := env.withState(f.entry)
	for _, m := range c.Modifies {
		if x, ok := m.(*SIndex); ok && x.I == nil {
			if b, ok := entryEnv.eval(x.X).(MapV); ok {
				allowed[b.M] = true
			}
		}
		if x, ok := m.(*SCall); ok {
			if id, ok := x.Fun.(*SIdent); ok && id.Name == "gint" {
				allowed[entryEnv.gintCell(x)] = true
			}
		}
	}
	for _, k := range sortedKeys(in.dbCells) {
		cl := in.dbCells[k]
		if allowed[cl] {
			continue
		}
		if owner := in.ghostOwner[cl]; owner != nil && owner.ID > in.entryCellN {
			continue // ghost state of an object allocated by this call: invisible to the caller
		}
		now, had := st.store[cl]
		if !had {
			continue
		}
		var before Val
		if v, ok := f.entry.store[cl]; ok {
			before = v
		} else if v, ok := in.initial[cl]; ok {
			before = v
		} else {
			continue
		}
		if bs, isInt := before.(Sc); isInt {
			goal := Eq(bs.T, now.(Sc).T)
			f.oblige(st, "frame", fmt.Sprintf("%s#frame:ghost(%s)@ret%d", f.key, cl.Name, retIdx), o.Pos, goal, "ghost integer unchanged (not in modifies): "+cl.Name)
			continue
		}
		x, y := before.(MapC), now.(MapC)
		goal := And(Eq(x.Has, y.Has), Eq(x.Val, y.Val))
		f.oblige(st, "frame", fmt.Sprintf("%s#frame:ghost(%s)@ret%d", f.key, cl.Name, retIdx), o.Pos, goal, "ghost map unchanged (not in modifies): "+cl.Name)
	}
}

// checkFrame: everything reachable from the receiver/parameters that is not in
// `modifies` is unchanged at return.
func (f *Frame) checkFrame(c *Contract, env *SpecEnv, st *State, retIdx int, o Outcome) {
	in := f.in
	allowed := map[*Cell]bool{}
	allowedFields := map[*Cell]map[string]bool{}
	entryEnv := env.withState(f.entry)
	for _, m := range c.Modifies {
		switch x := m.(type) {
		case *SIndex:
			if x.I == nil {
				switch b := entryEnv.eval(x.X).(type) {
				case SliceV:
					allowed[b.Reg] = true
				case MapV:
					allowed[b.M] = true
				case PtrV:
					allowed[b.To] = true
				}
			}
		case *SUn:
			if p, ok := entryEnv.eval(x.X).(PtrV); ok {
				allowed[p.To] = true
			}
		case *SSel:
			if p, ok := entryEnv.eval(x.X).(PtrV); ok {
				if allowedFields[p.To] == nil {
					allowedFields[p.To] = map[string]bool{}
				}
				allowedFields[p.To][x.Name] = true
			}
		}
	}
	// cells reachable from parameters at entry
	seen := map[*Cell]bool{}
	var cells []*Cell
	var walk func(v Val)
	walk = func(v Val) {
		switch x := v.(type) {
		case SliceV:
			if !seen[x.Reg] {
				seen[x.Reg] = true
				cells = append(cells, x.Reg)
			}
		case MapV:
			if !seen[x.M] {
				seen[x.M] = true
				cells = append(cells, x.M)
			}
		case PtrV:
			if !seen[x.To] {
				seen[x.To] = true
				cells = append(cells, x.To)
				if cv, ok := f.entry.store[x.To]; ok {
					walk(cv)
				} else if cv, ok := in.initial[x.To]; ok {
					walk(cv)
				}
			}
		case StructV:
			for _, fv := range x.F {
				walk(fv)
			}
		}
	}
	for _, k := range sortedKeys(f.params) {
		walk(f.params[k])
	}
	sort.Slice(cells, func(i, j int) bool { return cells[i].ID < cells[j].ID })
	for _, cl := range cells {
		if allowed[cl] {
			continue
		}
		now, had := st.store[cl]
		if !had {
			continue // never written
		}
		var before Val
		if v, ok := f.entry.store[cl]; ok {
			before = v
		} else if v, ok := in.initial[cl]; ok {
			before = v
		} else {
			continue
		}
		goal := f.sameContent(before, now, allowedFields[cl], env)
		f.oblige(st, "frame", fmt.Sprintf("%s#frame:%s@ret%d", f.key, cl.Name, retIdx), o.Pos, goal, "unchanged: "+cl.Name)
	}
}

func (f *Frame) sameContent(a, b Val, skip map[string]bool, env *SpecEnv) Term {
	switch x := a.(type) {
	case ArrV:
		return Eq(x.T, b.(ArrV).T)
	case MapC:
		y := b.(MapC)
		return And(Eq(x.Has, y.Has), Eq(x.Val, y.Val), Eq(x.Card, y.Card))
	case Sc:
		return Eq(x.T, b.(Sc).T)
	case SliceV:
		y := b.(SliceV)
		if x.Reg != y.Reg {
			return TFalse
		}
		return And(Eq(x.Off, y.Off), Eq(x.Len, y.Len), Eq(x.Cap, y.Cap))
	case PtrV:
		y := b.(PtrV)
		if x.To != y.To {
			return TFalse
		}
		return Eq(x.Nil, y.Nil)
	case MapV:
		y := b.(MapV)
		if x.M != y.M {
			return TFalse
		}
		return Eq(x.Nil, y.Nil)
	case StructV:
		y := b.(StructV)
		var cs []Term
		for i := range x.F {
			if skip[x.Typ.Field(i).Name()] || isSyncType(x.Typ.Field(i).Type()) {
				continue
			}
			cs = append(cs, f.sameContent(x.F[i], y.F[i], nil, env))
		}
		return And(cs...)
	}
	return TFalse
}

// VerifyLemma turns a lemma into one obligation.
func VerifyLemma(w *World, lm *Lemma) (rep *FuncReport) {
	rep = &FuncReport{Key: "L:" + lm.Name, Reveal: map[string]bool{}}
	for _, r := range lm.Reveal {
		rep.Reveal[r] = true
	}
	in := NewInterp(w)
	in.topKey = rep.Key
	defer func() {
		if r := recover(); r != nil {
			if u, ok := r.(*Unsupported); ok {
				rep.Unsupported = u.Error()
			} else {
				panic(r)
			}
		}
		rep.Obligations = in.obls
		rep.Decls = in.D.lines
		rep.D = in.D
		rep.Global = in.global
		for a := range in.assumes {
			rep.Assumes = append(rep.Assumes, a)
		}
		for _, o := range rep.Obligations {
			o.Decls = len(in.D.lines)
			o.Global = len(in.global)
		}
	}()
	st := &State{store: map[*Cell]Val{}, ghost: map[string]Val{}}
	env := &SpecEnv{in: in, st: st, vars: map[string]Val{}, pkgPath: lm.Pkg, lets: map[string]SExpr{}}
	var hyps []Term
	for _, u := range lm.Uses {
		found := false
		for _, other := range w.Lemmas {
			if other.Name == u && other.Pkg == lm.Pkg {
				hyps = append(hyps, env.evalBool(other.E))
				found = true
				if other.Axiom {
					in.note("axiom (trusted lemma): " + other.Name)
				}
			}
		}
		if !found {
			panic(&Unsupported{Msg: "lemma " + lm.Name + " uses unknown lemma " + u})
		}
	}
	if lm.Induct != "" {
		q, ok := lm.E.(*SQuant)
		if !ok || !q.Forall {
			panic(&Unsupported{Msg: "induction lemma " + lm.Name + " must be a top-level forall"})
		}
		var rest []SBinder
		found := false
		for _, b := range q.Vars {
			if b.Name == lm.Induct {
				found = true
				continue
			}
			rest = append(rest, b)
		}
		if !found {
			panic(&Unsupported{Msg: "induction variable " + lm.Induct + " not bound in " + lm.Name})
		}
		inner := SExpr(q.Body)
		if len(rest) > 0 {
			inner = &SQuant{Forall: true, Vars: rest, Body: q.Body}
		}
		at := func(t Term) Term { return env.bind(lm.Induct, Sc{t}).evalBool(inner) }
		base := at(IntLit(0))
		k := in.D.fresh("k_ind", SInt)
		ih := at(k)
		step := at(Add(k, IntLit(1)))
		in.obls = append(in.obls, &Obligation{Name: "L:" + lm.Name + ".base", Func: rep.Key, Kind: "lemma", Pos: w.Fset.Position(0),
			Hyps: hyps, Goal: base, Text: lm.Text + "  [" + lm.Induct + " = 0]", Lemma: true})
		in.obls = append(in.obls, &Obligation{Name: "L:" + lm.Name + ".step", Func: rep.Key, Kind: "lemma", Pos: w.Fset.Position(0),
			Hyps: append(append([]Term(nil), hyps...), Le(IntLit(0), k), ih), Goal: step, Text: lm.Text + "  [" + lm.Induct + " -> " + lm.Induct + "+1]", Lemma: true})
		in.note("lemma " + lm.Name + ": natural-number induction on " + lm.Induct + " (values < 0 are outside the lemma; state " + lm.Induct + " >= 0 where it is used)")
		return rep
	}
	goal := env.evalBool(lm.E)
	in.obls = append(in.obls, &Obligation{Name: "L:" + lm.Name, Func: rep.Key, Kind: "lemma", Pos: w.Fset.Position(0),
		Hyps: hyps, Goal: goal, Text: lm.Text, Lemma: true})
	return rep
}

// staticRetOrd: ordinal (source order) of the return statement at pos.
func (f *Frame) staticRetOrd(pos token.Pos) int {
	if f.decl == nil || f.decl.Body == nil {
		return 0
	}
	n, found := 0, 0
	ast.Inspect(f.decl.Body, func(x ast.Node) bool {
		if _, ok := x.(*ast.FuncLit); ok {
			return false
		}
		if r, ok := x.(*ast.ReturnStmt); ok {
			n++
			if r.Pos() == pos {
				found = n
			}
		}
		return true
	})
	return found
}

func bigZero() *big.Int { return new(big.Int) }

var _ = ast.Unparen

// monitorBracketed: the first two statements of fd are <mu>.Lock()/RLock() and defer <mu>.Unlock()/RUnlock().
func monitorBracketed(fd *ast.FuncDecl, mu string) bool {
	if fd.Body == nil || len(fd.Body.List) < 2 {
		return false
	}
	callOn := func(e ast.Expr, names ...string) bool {
		call, ok := e.(*ast.CallExpr)
		if !ok || len(call.Args) != 0 {
			return false
		}
		sel, ok := call.Fun.(*ast.SelectorExpr)
		if !ok || types.ExprString(sel.X) != mu {
			return false
		}
		for _, n := range names {
			if sel.Sel.Name == n {
				return true
			}
		}
		return false
	}
	// tracing preamble (span := tracer.Start(..); defer span.End(); span.SetAttributes(..)) touches no
	// state of the object and may precede the lock
	isTracing := func(st ast.Stmt) bool {
		txt := func(e ast.Expr) string { return types.ExprString(e) }
		switch x := st.(type) {
		case *ast.AssignStmt:
			return len(x.Rhs) == 1 && strings.Contains(txt(x.Rhs[0]), "tracer.Start(")
		case *ast.DeferStmt:
			return strings.HasSuffix(txt(x.Call.Fun), "span.End")
		case *ast.ExprStmt:
			return strings.HasPrefix(txt(x.X), "span.SetAttributes(")
		}
		return false
	}
	list := fd.Body.List
	for len(list) > 0 && isTracing(list[0]) {
		list = list[1:]
	}
	if len(list) < 2 {
		return false
	}
	es, ok := list[0].(*ast.ExprStmt)
	if !ok || !callOn(es.X, "Lock", "RLock") {
		return false
	}
	ds, ok := list[1].(*ast.DeferStmt)
	return ok && callOn(ds.Call, "Unlock", "RUnlock")
}
