package main

// SMT term construction with light constant folding.  Terms are plain
// s-expression strings; sharing is obtained by naming intermediate values with
// declared constants (SSA style), so strings stay small.

import (
	"fmt"
	"math/big"
	"strings"
)

type Term struct {
	S    string
	Sort string
	lit  *big.Int // integer literal
	blit int      // 1 true, 2 false
}

const (
	SInt  = "Int"
	SBool = "Bool"
	SStr  = "Str"
	SErr  = "Err"
	SRef  = "Ref"
)

func ArrSort(elem string) string   { return "(Array Int " + elem + ")" }
func MapSortOf(k, v string) string { return "(Array " + k + " " + v + ")" }

var (
	TTrue  = Term{S: "true", Sort: SBool, blit: 1}
	TFalse = Term{S: "false", Sort: SBool, blit: 2}
)

func (t Term) IsLit() bool    { return t.lit != nil }
func (t Term) IsTrue() bool   { return t.blit == 1 }
func (t Term) IsFalse() bool  { return t.blit == 2 }
func (t Term) String() string { return t.S }
func (t Term) Valid() bool    { return t.S != "" }

func IntLit(n int64) Term { return BigLit(big.NewInt(n)) }

func BigLit(n *big.Int) Term {
	c := new(big.Int).Set(n)
	if c.Sign() < 0 {
		return Term{S: "(- " + new(big.Int).Neg(c).String() + ")", Sort: SInt, lit: c}
	}
	return Term{S: c.String(), Sort: SInt, lit: c}
}

func BoolLit(b bool) Term {
	if b {
		return TTrue
	}
	return TFalse
}

func Raw(s, sort string) Term { return Term{S: s, Sort: sort} }

func App(fn string, sort string, args ...Term) Term {
	if len(args) == 0 {
		return Term{S: fn, Sort: sort}
	}
	var b strings.Builder
	b.WriteString("(")
	b.WriteString(fn)
	for _, a := range args {
		b.WriteString(" ")
		b.WriteString(a.S)
	}
	b.WriteString(")")
	return Term{S: b.String(), Sort: sort}
}

func Add(a, b Term) Term {
	if a.lit != nil && b.lit != nil {
		return BigLit(new(big.Int).Add(a.lit, b.lit))
	}
	if a.lit != nil && a.lit.Sign() == 0 {
		return b
	}
	if b.lit != nil && b.lit.Sign() == 0 {
		return a
	}
	return App("+", SInt, a, b)
}

func Sub(a, b Term) Term {
	if a.lit != nil && b.lit != nil {
		return BigLit(new(big.Int).Sub(a.lit, b.lit))
	}
	if b.lit != nil && b.lit.Sign() == 0 {
		return a
	}
	if a.S == b.S {
		return IntLit(0)
	}
	return App("-", SInt, a, b)
}

func Neg(a Term) Term {
	if a.lit != nil {
		return BigLit(new(big.Int).Neg(a.lit))
	}
	return App("-", SInt, a)
}

func Mul(a, b Term) Term {
	if a.lit != nil && b.lit != nil {
		return BigLit(new(big.Int).Mul(a.lit, b.lit))
	}
	if a.lit != nil && a.lit.Cmp(big.NewInt(1)) == 0 {
		return b
	}
	if b.lit != nil && b.lit.Cmp(big.NewInt(1)) == 0 {
		return a
	}
	if (a.lit != nil && a.lit.Sign() == 0) || (b.lit != nil && b.lit.Sign() == 0) {
		return IntLit(0)
	}
	return App("*", SInt, a, b)
}

// EDiv / EMod: SMT-LIB euclidean div/mod (spec-level, for non-negative operands
// they coincide with Go's).
func EDiv(a, b Term) Term {
	if a.lit != nil && b.lit != nil && b.lit.Sign() > 0 && a.lit.Sign() >= 0 {
		return BigLit(new(big.Int).Div(a.lit, b.lit))
	}
	return App("div", SInt, a, b)
}

func EMod(a, b Term) Term {
	if a.lit != nil && b.lit != nil && b.lit.Sign() > 0 {
		return BigLit(new(big.Int).Mod(a.lit, b.lit))
	}
	return App("mod", SInt, a, b)
}

// GoDiv / GoRem: truncated division (Go semantics), defined in the prelude.
func GoDiv(a, b Term) Term {
	if a.lit != nil && b.lit != nil && b.lit.Sign() != 0 {
		return BigLit(new(big.Int).Quo(a.lit, b.lit))
	}
	return App("godiv", SInt, a, b)
}

func GoRem(a, b Term) Term {
	if a.lit != nil && b.lit != nil && b.lit.Sign() != 0 {
		return BigLit(new(big.Int).Rem(a.lit, b.lit))
	}
	return App("gorem", SInt, a, b)
}

func cmpFold(a, b Term, f func(int) bool) (Term, bool) {
	if a.lit != nil && b.lit != nil {
		return BoolLit(f(a.lit.Cmp(b.lit))), true
	}
	return Term{}, false
}

func Lt(a, b Term) Term {
	if t, ok := cmpFold(a, b, func(c int) bool { return c < 0 }); ok {
		return t
	}
	return App("<", SBool, a, b)
}
func Le(a, b Term) Term {
	if t, ok := cmpFold(a, b, func(c int) bool { return c <= 0 }); ok {
		return t
	}
	if a.S == b.S {
		return TTrue
	}
	return App("<=", SBool, a, b)
}
func Gt(a, b Term) Term { return Lt(b, a) }
func Ge(a, b Term) Term { return Le(b, a) }

func Eq(a, b Term) Term {
	if a.Sort != b.Sort && a.Sort != "" && b.Sort != "" {
		panic(fmt.Sprintf("Eq: sort mismatch %s:%s vs %s:%s", a.S, a.Sort, b.S, b.Sort))
	}
	if a.lit != nil && b.lit != nil {
		return BoolLit(a.lit.Cmp(b.lit) == 0)
	}
	if a.blit != 0 && b.blit != 0 {
		return BoolLit(a.blit == b.blit)
	}
	if a.S == b.S {
		return TTrue
	}
	if a.Sort == SBool {
		if b.blit == 1 {
			return a
		}
		if b.blit == 2 {
			return Not(a)
		}
		if a.blit == 1 {
			return b
		}
		if a.blit == 2 {
			return Not(b)
		}
	}
	return App("=", SBool, a, b)
}

func Ne(a, b Term) Term { return Not(Eq(a, b)) }

func Not(a Term) Term {
	if a.blit == 1 {
		return TFalse
	}
	if a.blit == 2 {
		return TTrue
	}
	if strings.HasPrefix(a.S, "(not ") {
		inner := a.S[5 : len(a.S)-1]
		return Term{S: inner, Sort: SBool}
	}
	return App("not", SBool, a)
}

func And(ts ...Term) Term {
	var keep []Term
	for _, t := range ts {
		if t.blit == 2 {
			return TFalse
		}
		if t.blit == 1 {
			continue
		}
		keep = append(keep, t)
	}
	if len(keep) == 0 {
		return TTrue
	}
	if len(keep) == 1 {
		return keep[0]
	}
	return App("and", SBool, keep...)
}

func Or(ts ...Term) Term {
	var keep []Term
	for _, t := range ts {
		if t.blit == 1 {
			return TTrue
		}
		if t.blit == 2 {
			continue
		}
		keep = append(keep, t)
	}
	if len(keep) == 0 {
		return TFalse
	}
	if len(keep) == 1 {
		return keep[0]
	}
	return App("or", SBool, keep...)
}

func Implies(a, b Term) Term {
	if a.blit == 1 {
		return b
	}
	if a.blit == 2 || b.blit == 1 {
		return TTrue
	}
	if b.blit == 2 {
		return Not(a)
	}
	return App("=>", SBool, a, b)
}

func Ite(c, a, b Term) Term {
	if c.blit == 1 {
		return a
	}
	if c.blit == 2 {
		return b
	}
	if a.S == b.S {
		return a
	}
	if a.Sort != b.Sort {
		panic(fmt.Sprintf("Ite: sort mismatch %s vs %s", a.Sort, b.Sort))
	}
	return App("ite", a.Sort, c, a, b)
}

func elemSortOf(arrSort string) string {
	// "(Array K V)" -> V ; handles nested parens
	s := strings.TrimSuffix(strings.TrimPrefix(arrSort, "(Array "), ")")
	// skip K
	depth := 0
	for i := 0; i < len(s); i++ {
		switch s[i] {
		case '(':
			depth++
		case ')':
			depth--
		case ' ':
			if depth == 0 {
				return s[i+1:]
			}
		}
	}
	panic("elemSortOf: " + arrSort)
}

func keySortOf(arrSort string) string {
	s := strings.TrimSuffix(strings.TrimPrefix(arrSort, "(Array "), ")")
	depth := 0
	for i := 0; i < len(s); i++ {
		switch s[i] {
		case '(':
			depth++
		case ')':
			depth--
		case ' ':
			if depth == 0 {
				return s[:i]
			}
		}
	}
	panic("keySortOf: " + arrSort)
}

func Select(a, i Term) Term {
	if !strings.HasPrefix(a.Sort, "(Array ") {
		panic("Select on non-array sort " + a.Sort + " term " + a.S)
	}
	return App("select", elemSortOf(a.Sort), a, i)
}

func Store(a, i, v Term) Term {
	return App("store", a.Sort, a, i, v)
}

func Min(a, b Term) Term { return Ite(Le(a, b), a, b) }
func Max(a, b Term) Term { return Ite(Le(a, b), b, a) }

func pow2(n uint) *big.Int { return new(big.Int).Lsh(big.NewInt(1), n) }

// WrapU reduces t modulo 2^w.
func WrapU(t Term, w uint) Term {
	m := pow2(w)
	if t.lit != nil {
		return BigLit(new(big.Int).Mod(t.lit, m))
	}
	return App("mod", SInt, t, BigLit(m))
}

// WrapS re-centres t into [-2^(w-1), 2^(w-1)).
func WrapS(t Term, w uint) Term {
	m := pow2(w)
	h := pow2(w - 1)
	if t.lit != nil {
		r := new(big.Int).Add(t.lit, h)
		r.Mod(r, m)
		r.Sub(r, h)
		return BigLit(r)
	}
	return Sub(App("mod", SInt, Add(t, BigLit(h)), BigLit(m)), BigLit(h))
}

func Forall(vars []Term, body Term, patterns ...[]Term) Term {
	if len(vars) == 0 || body.blit == 1 {
		return body
	}
	var b strings.Builder
	b.WriteString("(forall (")
	for _, v := range vars {
		fmt.Fprintf(&b, "(%s %s)", v.S, v.Sort)
	}
	b.WriteString(") ")
	if len(patterns) > 0 {
		b.WriteString("(! ")
		b.WriteString(body.S)
		for _, p := range patterns {
			b.WriteString(" :pattern (")
			for i, t := range p {
				if i > 0 {
					b.WriteString(" ")
				}
				b.WriteString(t.S)
			}
			b.WriteString(")")
		}
		b.WriteString(")")
	} else {
		b.WriteString(body.S)
	}
	b.WriteString(")")
	return Term{S: b.String(), Sort: SBool}
}

func Exists(vars []Term, body Term) Term {
	if len(vars) == 0 {
		return body
	}
	var b strings.Builder
	b.WriteString("(exists (")
	for _, v := range vars {
		fmt.Fprintf(&b, "(%s %s)", v.S, v.Sort)
	}
	b.WriteString(") ")
	b.WriteString(body.S)
	b.WriteString(")")
	return Term{S: b.String(), Sort: SBool}
}
