package main

import (
	"fmt"
	"go/ast"
	"go/token"
	"go/types"
)

type OutKind int

const (
	ONormal OutKind = iota
	OBreak
	OContinue
	OReturn
)

type Outcome struct {
	St    *State
	Kind  OutKind
	Label string
	Rets  []Val
	RetN  int
	Pos   token.Pos
}

func normal(st *State) []Outcome { return []Outcome{{St: st, Kind: ONormal}} }

func (f *Frame) checkPaths(pos token.Pos) {
	f.in.pathCnt++
	if f.in.pathCnt > f.in.maxPaths {
		f.in.unsupported(pos, "more than %d paths; add callee contracts", f.in.maxPaths)
	}
}

func (f *Frame) execBlock(stmts []ast.Stmt, st *State) []Outcome {
	cur := []*State{st}
	var outs []Outcome
	for _, s := range stmts {
		var next []*State
		for _, c := range cur {
			if c.dead {
				continue
			}
			for _, o := range f.execStmt(s, c) {
				if o.Kind == ONormal {
					next = append(next, o.St)
				} else {
					outs = append(outs, o)
				}
			}
		}
		cur = next
		if len(cur) == 0 {
			break
		}
	}
	for _, c := range cur {
		outs = append(outs, Outcome{St: c, Kind: ONormal})
	}
	return outs
}

// fork splits st on cond; infeasible sides (syntactically) are dropped.
func (f *Frame) fork(st *State, cond Term, tag string) (yes, no *State) {
	if cond.IsTrue() {
		return st, nil
	}
	if cond.IsFalse() {
		return nil, st
	}
	f.checkPaths(token.NoPos)
	yes = st.clone()
	yes.assume(cond)
	yes.path = append(yes.path, tag+"+")
	no = st
	no.assume(Not(cond))
	no.path = append(no.path, tag+"-")
	return
}

func (f *Frame) execStmt(s ast.Stmt, st *State) []Outcome {
	in := f.in
	switch x := s.(type) {
	case *ast.BlockStmt:
		return f.execBlock(x.List, st)
	case *ast.EmptyStmt:
		return normal(st)
	case *ast.ExprStmt:
		if call, ok := x.X.(*ast.CallExpr); ok {
			return f.execCallStmt(call, st, func(st *State, vs []Val) {})
		}
		f.evalExpr(x.X, st)
		return normal(st)
	case *ast.DeclStmt:
		gd := x.Decl.(*ast.GenDecl)
		if gd.Tok != token.VAR {
			return normal(st)
		}
		states := []*State{st}
		for _, sp := range gd.Specs {
			vs := sp.(*ast.ValueSpec)
			if len(vs.Values) == 0 {
				for _, st := range states {
					for _, n := range vs.Names {
						f.define(n, in.zeroVal(f.pkg.TypesInfo.ObjectOf(n).Type(), f), st)
					}
				}
				continue
			}
			lhs := make([]ast.Expr, len(vs.Names))
			for i, n := range vs.Names {
				lhs[i] = n
			}
			var next []*State
			for _, st := range states {
				for _, o := range f.execAssign(lhs, vs.Values, token.DEFINE, st, x.Pos()) {
					next = append(next, o.St)
				}
			}
			states = next
		}
		var outs []Outcome
		for _, st := range states {
			outs = append(outs, Outcome{St: st, Kind: ONormal})
		}
		return outs
	case *ast.AssignStmt:
		return f.execAssign(x.Lhs, x.Rhs, x.Tok, st, x.Pos())
	case *ast.IncDecStmt:
		v := f.evalExpr(x.X, st).(Sc).T
		t := f.typeOf(x.X)
		op := token.ADD
		if x.Tok == token.DEC {
			op = token.SUB
		}
		r := f.arith(op, v, IntLit(1), t, t, st, x.Pos())
		f.assign(x.X, Sc{r}, st)
		return normal(st)
	case *ast.ReturnStmt:
		return f.execReturn(x, st)
	case *ast.IfStmt:
		return f.execIf(x, st)
	case *ast.ForStmt:
		return f.execFor(x, st, "")
	case *ast.RangeStmt:
		return f.execRange(x, st, "")
	case *ast.LabeledStmt:
		switch y := x.Stmt.(type) {
		case *ast.ForStmt:
			return f.execFor(y, st, x.Label.Name)
		case *ast.RangeStmt:
			return f.execRange(y, st, x.Label.Name)
		}
		return f.execStmt(x.Stmt, st)
	case *ast.BranchStmt:
		lbl := ""
		if x.Label != nil {
			lbl = x.Label.Name
		}
		switch x.Tok {
		case token.BREAK:
			return []Outcome{{St: st, Kind: OBreak, Label: lbl}}
		case token.CONTINUE:
			return []Outcome{{St: st, Kind: OContinue, Label: lbl}}
		}
		in.unsupported(x.Pos(), "branch %s", x.Tok)
	case *ast.SwitchStmt:
		return f.execSwitch(x, st)
	case *ast.SendStmt:
		// channel contents are not modelled: the sent value is evaluated (safety obligations) and dropped
		f.evalExpr(x.Value, st)
		in.note(fmt.Sprintf("channel send at %s: channel contents are not modelled", in.W.Fset.Position(x.Pos())))
		return normal(st)
	case *ast.SelectStmt:
		// select over channel SENDS and default only: any ready case may run -- every case is explored
		var outs []Outcome
		for _, cc := range x.Body.List {
			clause := cc.(*ast.CommClause)
			b := st.clone()
			b.path = append(append([]string(nil), st.path...), fmt.Sprintf("select%d", len(outs)))
			if clause.Comm != nil {
				switch cm := clause.Comm.(type) {
				case *ast.SendStmt:
					f.evalExpr(cm.Value, b)
				case *ast.ExprStmt:
					// `case <-ch:` -- the received value is dropped
				case *ast.AssignStmt:
					// `case v := <-ch` / `case v, ok := <-ch`: an arbitrary value of the element type;
					// with ok == true a pointer element is non-nil (ASSUMED: senders send non-nil
					// pointers), with ok == false it is the zero value
					ue, isRecv := ast.Unparen(cm.Rhs[0]).(*ast.UnaryExpr)
					if !isRecv || ue.Op != token.ARROW || len(cm.Rhs) != 1 {
						in.unsupported(clause.Pos(), "select case %T", clause.Comm)
					}
					ct, isChan := f.resolve(f.pkg.TypesInfo.TypeOf(ue.X)).Underlying().(*types.Chan)
					if !isChan {
						in.unsupported(clause.Pos(), "receive from a non-channel")
					}
					okT := in.D.fresh("recvok", SBool)
					if len(cm.Lhs) == 1 {
						okT = TTrue
					}
					var v Val
					if okT.IsTrue() {
						v = in.freshVal("recv", ct.Elem(), f)
					} else {
						// fork on ok below
						v = in.freshVal("recv", ct.Elem(), f)
					}
					if pv, isPtr := v.(PtrV); isPtr {
						b.assume(Implies(okT, Not(pv.Nil)))
					}
					if len(cm.Lhs) == 2 {
						// closed channel: zero value and ok == false -- explored as a separate branch
						b2 := b.clone()
						b2.path = append(append([]string(nil), b.path...), "closed")
						f.assignOrDefine(cm.Lhs[0], in.zeroVal(ct.Elem(), f), cm.Tok, b2)
						f.assignOrDefine(cm.Lhs[1], Sc{TFalse}, cm.Tok, b2)
						outs = append(outs, f.execBlock(clause.Body, b2)...)
						b.assume(okT)
						f.assignOrDefine(cm.Lhs[0], v, cm.Tok, b)
						f.assignOrDefine(cm.Lhs[1], Sc{TTrue}, cm.Tok, b)
					} else {
						f.assignOrDefine(cm.Lhs[0], v, cm.Tok, b)
					}
					in.note("select receive: the received value is arbitrary (non-nil if a pointer); channel contents are not modelled")
				default:
					in.unsupported(clause.Pos(), "select case %T", clause.Comm)
				}
			}
			outs = append(outs, f.execBlock(clause.Body, b)...)
		}
		in.note(fmt.Sprintf("select at %s: every send/default case explored as a nondeterministic choice; channel contents are not modelled", in.W.Fset.Position(x.Pos())))
		return outs
	case *ast.DeferStmt:
		if f.isDroppedCall(x.Call) {
			return normal(st)
		}
		f.defers = append(f.defers, x.Call)
		return normal(st)
	case *ast.GoStmt:
		// goroutine bodies are not modelled; sound only where the spawned work does not touch
		// the state the contract talks about (reviewed per function, listed as an assumption)
		in.note(fmt.Sprintf("go statement at %s dropped (its body is not modelled)", in.W.Fset.Position(x.Pos())))
		return normal(st)
	}
	in.unsupported(s.Pos(), "statement %T", s)
	return nil
}

func (f *Frame) define(id *ast.Ident, v Val, st *State) {
	if id.Name == "_" {
		return
	}
	obj := f.pkg.TypesInfo.Defs[id]
	if obj == nil {
		obj = f.pkg.TypesInfo.ObjectOf(id)
	}
	c, ok := f.vars[obj]
	if !ok {
		c = f.in.newCell(id.Name, CVar, f.resolve(obj.Type()))
		f.vars[obj] = c
	}
	st.store[c] = v
}

// assign stores v into the location denoted by lhs.
func (f *Frame) assign(lhs ast.Expr, v Val, st *State) {
	in := f.in
	switch x := ast.Unparen(lhs).(type) {
	case *ast.Ident:
		if x.Name == "_" {
			return
		}
		obj := f.pkg.TypesInfo.ObjectOf(x)
		if c := f.cellOf(obj); c != nil {
			st.store[c] = v
			return
		}
		if _, isDef := f.pkg.TypesInfo.Defs[x]; isDef {
			f.define(x, v, st)
			return
		}
		in.unsupported(x.Pos(), "assignment to %s (no cell; package variable?)", x.Name)
	case *ast.StarExpr:
		p := f.evalExpr(x.X, st).(PtrV)
		f.safe(st, "nilptr", x.Pos(), Not(p.Nil))
		st.store[p.To] = v
	case *ast.SelectorExpr:
		sel, ok := f.pkg.TypesInfo.Selections[x]
		if !ok || sel.Kind() != types.FieldVal {
			in.unsupported(x.Pos(), "assignment to selector")
		}
		f.updateField(x.X, sel.Index(), v, st, x.Pos())
	case *ast.IndexExpr:
		bt := f.typeOf(x.X)
		base := f.evalExpr(x.X, st)
		if p, ok := base.(PtrV); ok {
			f.safe(st, "nilptr", x.Pos(), Not(p.Nil))
			arr := in.load(st, p.To, f).(ArrV)
			i := f.evalExpr(x.Index, st).(Sc).T
			f.safe(st, "idx", x.Pos(), And(Le(IntLit(0), i), Lt(i, IntLit(arr.N))))
			et := bt.Underlying().(*types.Pointer).Elem().Underlying().(*types.Array).Elem()
			st.store[p.To] = ArrV{T: f.nameIt(st, "arr", Store(arr.T, i, in.freeze(v, et, st, f))), N: arr.N}
			return
		}
		switch b := base.(type) {
		case ArrV:
			i := f.evalExpr(x.Index, st).(Sc).T
			f.safe(st, "idx", x.Pos(), And(Le(IntLit(0), i), Lt(i, IntLit(b.N))))
			et := bt.Underlying().(*types.Array).Elem()
			nv := ArrV{T: f.nameIt(st, "arr", Store(b.T, i, in.freeze(v, et, st, f))), N: b.N}
			f.assign(x.X, nv, st)
		case SliceV:
			i := f.evalExpr(x.Index, st).(Sc).T
			f.safe(st, "idx", x.Pos(), And(Le(IntLit(0), i), Lt(i, b.Len)))
			et := bt.Underlying().(*types.Slice).Elem()
			f.regionStore(b.Reg, Add(b.Off, i), in.freeze(v, et, st, f), st)
		case MapV:
			f.safe(st, "nilmap", x.Pos(), Not(b.Nil))
			k := f.evalAssignable(x.Index, bt.Underlying().(*types.Map).Key(), st)
			f.mapStore(b, bt, k, v, st)
		default:
			in.unsupported(x.Pos(), "index assignment on %T", base)
		}
	default:
		in.unsupported(lhs.Pos(), "assignment target %T", lhs)
	}
}

func (f *Frame) regionStore(reg *Cell, idx Term, v Term, st *State) {
	old := f.in.load(st, reg, f).(ArrV)
	st.store[reg] = ArrV{T: f.nameIt(st, "reg", Store(old.T, idx, v)), N: old.N}
}

// updateField sets base.path = v where base may be a pointer or an addressable struct.
func (f *Frame) updateField(baseExpr ast.Expr, path []int, v Val, st *State, pos token.Pos) {
	in := f.in
	base := f.evalExpr(baseExpr, st)
	if p, ok := base.(PtrV); ok {
		f.safe(st, "nilptr", pos, Not(p.Nil))
		cur := in.load(st, p.To, f)
		st.store[p.To] = f.setPath(cur, path, v, st, pos)
		return
	}
	nv := f.setPath(base, path, v, st, pos)
	f.assign(baseExpr, nv, st)
}

func (f *Frame) setPath(cur Val, path []int, v Val, st *State, pos token.Pos) Val {
	if len(path) == 0 {
		return v
	}
	switch c := cur.(type) {
	case StructV:
		nf := make([]Val, len(c.F))
		copy(nf, c.F)
		nf[path[0]] = f.setPath(c.F[path[0]], path[1:], v, st, pos)
		return StructV{Typ: c.Typ, F: nf}
	case PtrV:
		f.safe(st, "nilptr", pos, Not(c.Nil))
		inner := f.in.load(st, c.To, f)
		st.store[c.To] = f.setPath(inner, path, v, st, pos)
		return c
	}
	f.in.unsupported(pos, "field update through %T", cur)
	return nil
}

func (f *Frame) execAssign(lhs, rhs []ast.Expr, tok token.Token, st *State, pos token.Pos) []Outcome {
	in := f.in
	// op-assign
	if tok != token.ASSIGN && tok != token.DEFINE {
		if len(lhs) != 1 {
			in.unsupported(pos, "op-assign with several operands")
		}
		var op token.Token
		switch tok {
		case token.ADD_ASSIGN:
			op = token.ADD
		case token.SUB_ASSIGN:
			op = token.SUB
		case token.MUL_ASSIGN:
			op = token.MUL
		case token.QUO_ASSIGN:
			op = token.QUO
		case token.REM_ASSIGN:
			op = token.REM
		case token.OR_ASSIGN:
			op = token.OR
		case token.AND_ASSIGN:
			op = token.AND
		case token.XOR_ASSIGN:
			op = token.XOR
		case token.SHL_ASSIGN:
			op = token.SHL
		case token.SHR_ASSIGN:
			op = token.SHR
		case token.AND_NOT_ASSIGN:
			op = token.AND_NOT
		default:
			in.unsupported(pos, "assign op %s", tok)
		}
		l := f.evalExpr(lhs[0], st)
		r := f.evalExpr(rhs[0], st)
		t := f.typeOf(lhs[0])
		if isString(t) && op == token.ADD {
			f.assign(lhs[0], Sc{in.strConcat(l.(Sc).T, r.(Sc).T)}, st)
			return normal(st)
		}
		res := f.arith(op, l.(Sc).T, r.(Sc).T, t, f.typeOf(rhs[0]), st, pos)
		f.assign(lhs[0], Sc{res}, st)
		return normal(st)
	}
	// tuple from single call / comma-ok forms
	if len(rhs) == 1 && len(lhs) > 1 {
		switch r := ast.Unparen(rhs[0]).(type) {
		case *ast.CallExpr:
			return f.execCallStmt(r, st, func(st *State, vs []Val) {
				if len(vs) != len(lhs) {
					in.unsupported(pos, "call returned %d values for %d targets", len(vs), len(lhs))
				}
				for i, l := range lhs {
					f.assignOrDefine(l, vs[i], tok, st)
				}
			})
		case *ast.IndexExpr: // v, ok := m[k]
			bt := f.typeOf(r.X)
			mt, isMap := bt.Underlying().(*types.Map)
			if !isMap {
				in.unsupported(pos, "comma-ok on non-map index")
			}
			m := f.evalExpr(r.X, st).(MapV)
			mc := in.load(st, m.M, f).(MapC)
			k := in.freeze(f.evalAssignable(r.Index, mt.Key(), st), mt.Key(), st, f)
			has := Select(mc.Has, k)
			zero := in.zeroTerm(mt.Elem(), f)
			v := in.thaw(Ite(has, Select(mc.Val, k), zero), mt.Elem(), f)
			f.assignOrDefine(lhs[0], v, tok, st)
			f.assignOrDefine(lhs[1], Sc{has}, tok, st)
			return normal(st)
		case *ast.TypeAssertExpr:
			// v, ok := x.(I) with I an interface type: the dynamic value is kept when ok (an
			// arbitrary verdict: dynamic types are not modelled), nil otherwise
			tt := f.typeOf(r.Type)
			if _, isIface := tt.Underlying().(*types.Interface); !isIface || r.Type == nil {
				in.unsupported(pos, "comma-ok type assertion to a concrete type")
			}
			xv := f.evalExpr(r.X, st)
			ok := in.D.fresh("assert_ok", SBool)
			var v Val
			switch b := xv.(type) {
			case PtrV:
				st.assume(Implies(ok, Not(b.Nil)))
				v = PtrV{To: b.To, Nil: Or(Not(ok), b.Nil)}
			case Sc:
				in.D.declareSort("Iface")
				in.D.declareOnce("iface_nil", "(declare-const iface_nil Iface)")
				nilT := Term{S: "iface_nil", Sort: "Iface"}
				if b.T.Sort != "Iface" {
					in.unsupported(pos, "comma-ok type assertion on a %s value", b.T.Sort)
				}
				st.assume(Implies(ok, Not(Eq(b.T, nilT))))
				v = Sc{Ite(ok, b.T, nilT)}
			default:
				in.unsupported(pos, "comma-ok type assertion on %T", xv)
			}
			in.note("interface-to-interface type assertion: arbitrary verdict, value kept when it succeeds")
			f.assignOrDefine(lhs[0], v, tok, st)
			f.assignOrDefine(lhs[1], Sc{ok}, tok, st)
			return normal(st)
		}
		in.unsupported(pos, "tuple assignment from %T", rhs[0])
	}
	if len(lhs) != len(rhs) {
		in.unsupported(pos, "assignment count mismatch")
	}
	if len(rhs) == 1 {
		if call, ok := ast.Unparen(rhs[0]).(*ast.CallExpr); ok && !f.isConversion(call) {
			return f.execCallStmt(call, st, func(st *State, vs []Val) {
				if len(vs) != 1 {
					in.unsupported(pos, "call returned %d values", len(vs))
				}
				v := f.convertAssign(vs[0], f.typeOf(rhs[0]), f.lhsType(lhs[0]), st, pos)
				f.assignOrDefine(lhs[0], v, tok, st)
			})
		}
	}
	// parallel assignment: evaluate all RHS first
	vals := make([]Val, len(rhs))
	for i, r := range rhs {
		vals[i] = f.evalAssignable(r, f.lhsType(lhs[i]), st)
	}
	for i, l := range lhs {
		f.assignOrDefine(l, vals[i], tok, st)
	}
	return normal(st)
}

func (f *Frame) lhsType(l ast.Expr) types.Type {
	if id, ok := l.(*ast.Ident); ok {
		if id.Name == "_" {
			return nil
		}
		if o := f.pkg.TypesInfo.ObjectOf(id); o != nil {
			return f.resolve(o.Type())
		}
	}
	if tv, ok := f.pkg.TypesInfo.Types[l]; ok {
		return f.resolve(tv.Type)
	}
	return nil
}

func (f *Frame) assignOrDefine(l ast.Expr, v Val, tok token.Token, st *State) {
	if id, ok := l.(*ast.Ident); ok && tok == token.DEFINE {
		if _, isDef := f.pkg.TypesInfo.Defs[id]; isDef {
			f.define(id, v, st)
			return
		}
	}
	f.assign(l, v, st)
}

func (f *Frame) isConversion(call *ast.CallExpr) bool {
	tv, ok := f.pkg.TypesInfo.Types[call.Fun]
	return ok && tv.IsType()
}

func (f *Frame) execIf(x *ast.IfStmt, st *State) []Outcome {
	var outs []Outcome
	pre := []*State{st}
	if x.Init != nil {
		pre = nil
		for _, o := range f.execStmt(x.Init, st) {
			if o.Kind != ONormal {
				outs = append(outs, o)
				continue
			}
			pre = append(pre, o.St)
		}
	}
	for _, s := range pre {
		states := f.evalCond(x.Cond, s)
		for _, cs := range states {
			yes, no := f.fork(cs.St, cs.T, fmt.Sprintf("if%d", f.in.W.Fset.Position(x.Pos()).Line))
			if yes != nil {
				outs = append(outs, f.execBlock(x.Body.List, yes)...)
			}
			if no != nil {
				if x.Else != nil {
					outs = append(outs, f.execStmt(x.Else, no)...)
				} else {
					outs = append(outs, Outcome{St: no, Kind: ONormal})
				}
			}
		}
	}
	return outs
}

type condState struct {
	St *State
	T  Term
}

// evalCond evaluates a boolean condition; calls at the top level of the
// condition (possibly negated) may fork.
func (f *Frame) evalCond(e ast.Expr, st *State) []condState {
	e = ast.Unparen(e)
	if u, ok := e.(*ast.UnaryExpr); ok && u.Op == token.NOT {
		inner := f.evalCond(u.X, st)
		for i := range inner {
			inner[i].T = Not(inner[i].T)
		}
		return inner
	}
	if call, ok := e.(*ast.CallExpr); ok && !f.isConversion(call) {
		var res []condState
		outs := f.execCallStmt(call, st, func(st *State, vs []Val) {
			res = append(res, condState{st, vs[0].(Sc).T})
		})
		_ = outs
		return res
	}
	return []condState{{st, f.evalExpr(e, st).(Sc).T}}
}

func (f *Frame) execSwitch(x *ast.SwitchStmt, st *State) []Outcome {
	in := f.in
	var outs []Outcome
	cur := st
	if x.Init != nil {
		o := f.execStmt(x.Init, st)
		if len(o) != 1 || o[0].Kind != ONormal {
			in.unsupported(x.Pos(), "forking switch init")
		}
		cur = o[0].St
	}
	var tag Val
	if x.Tag != nil {
		tag = f.evalExpr(x.Tag, cur)
	}
	var deflt *ast.CaseClause
	for _, cc := range x.Body.List {
		clause := cc.(*ast.CaseClause)
		if clause.List == nil {
			deflt = clause
			continue
		}
		if cur == nil || cur.dead {
			break
		}
		var conds []Term
		for _, ce := range clause.List {
			if tag != nil {
				if f.isNilExpr(ce) {
					conds = append(conds, f.nilTest(tag, ce.Pos()))
					continue
				}
				v := f.evalExpr(ce, cur)
				conds = append(conds, in.valEq(tag, v, cur, f, ce.Pos()))
			} else {
				conds = append(conds, f.evalExpr(ce, cur).(Sc).T)
			}
		}
		yes, no := f.fork(cur, Or(conds...), fmt.Sprintf("case%d", in.W.Fset.Position(clause.Pos()).Line))
		if yes != nil {
			outs = append(outs, f.execCaseBody(clause, yes)...)
		}
		cur = no
	}
	if cur != nil && !cur.dead {
		if deflt != nil {
			outs = append(outs, f.execCaseBody(deflt, cur)...)
		} else {
			outs = append(outs, Outcome{St: cur, Kind: ONormal})
		}
	}
	return outs
}

func (f *Frame) execCaseBody(c *ast.CaseClause, st *State) []Outcome {
	var outs []Outcome
	for _, o := range f.execBlock(c.Body, st) {
		if o.Kind == OBreak && o.Label == "" {
			o.Kind = ONormal
		}
		outs = append(outs, o)
	}
	for _, s := range c.Body {
		if b, ok := s.(*ast.BranchStmt); ok && b.Tok == token.FALLTHROUGH {
			f.in.unsupported(b.Pos(), "fallthrough")
		}
	}
	return outs
}

func (f *Frame) execReturn(x *ast.ReturnStmt, st *State) []Outcome {
	in := f.in
	f.retN++
	n := f.retN
	sig := f.signature()
	finish := func(st *State, vs []Val) Outcome {
		for i := range vs {
			if i < sig.Results().Len() {
				vs[i] = f.convertAssign(vs[i], nil, nil, st, x.Pos())
			}
		}
		// named results are assigned by return
		for i, c := range f.results {
			if i < len(vs) {
				st.store[c] = vs[i]
			}
		}
		return Outcome{St: st, Kind: OReturn, Rets: vs, RetN: n, Pos: x.Pos()}
	}
	if len(x.Results) == 0 {
		var vs []Val
		for _, c := range f.results {
			vs = append(vs, in.load(st, c, f))
		}
		return []Outcome{finish(st, vs)}
	}
	if len(x.Results) == 1 && sig.Results().Len() > 1 {
		call, ok := ast.Unparen(x.Results[0]).(*ast.CallExpr)
		if !ok {
			in.unsupported(x.Pos(), "multi-value return from %T", x.Results[0])
		}
		var outs []Outcome
		rest := f.execCallStmt(call, st, func(st *State, vs []Val) {
			outs = append(outs, finish(st, vs))
		})
		for _, o := range rest {
			if o.Kind != ONormal {
				outs = append(outs, o)
			}
		}
		return outs
	}
	if len(x.Results) == 1 {
		if call, ok := ast.Unparen(x.Results[0]).(*ast.CallExpr); ok && !f.isConversion(call) {
			var outs []Outcome
			rest := f.execCallStmt(call, st, func(st *State, vs []Val) {
				v := f.convertAssign(vs[0], f.typeOf(x.Results[0]), sig.Results().At(0).Type(), st, x.Pos())
				outs = append(outs, finish(st, []Val{v}))
			})
			for _, o := range rest {
				if o.Kind != ONormal {
					outs = append(outs, o)
				}
			}
			return outs
		}
	}
	vs := make([]Val, len(x.Results))
	for i, r := range x.Results {
		vs[i] = f.evalAssignable(r, sig.Results().At(i).Type(), st)
	}
	return []Outcome{finish(st, vs)}
}

func (f *Frame) signature() *types.Signature {
	if f.decl != nil {
		return f.pkg.TypesInfo.Defs[f.decl.Name].Type().(*types.Signature)
	}
	return f.pkg.TypesInfo.Types[f.lit].Type.(*types.Signature)
}
