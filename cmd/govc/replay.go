package main

// Counterexample replay on the real code for functions whose parameters and
// results are scalars, byte slices, strings and integer arrays.
//
//  1. ask a solver for a small model of the failed obligation (slice lengths <= 64)
//  2. render the inputs as Go literals into an in-package test injected with
//     `go test -overlay` (nothing is written into /repo)
//  3. run the REAL function, print its outputs
//  4. substitute inputs and real outputs into the failed ensures clause and ask the
//     solver for the ground verdict: violated => confirmed.

import (
	"bytes"
	"context"
	"encoding/json"
	"fmt"
	"go/types"
	"math/big"
	"os"
	"os/exec"
	"path/filepath"
	"regexp"
	"sort"
	"strconv"
	"strings"
	"time"
)

type ReplayInfo struct {
	W        *World
	Key      string
	Contract *Contract
	Params   map[string]Val
	Order    []string // parameter names in call order (receiver first if any)
	Initial  map[*Cell]Val
	Sig      *types.Signature
	PkgName  string
	PkgPath  string
	PkgDir   string
	FuncName string
	HasRecv  bool
	RecvName string
}

const replayMaxLen = 64

// ---------- s-expression helpers ----------

type sx struct {
	atom string
	list []*sx
}

func parseSx(s string) []*sx {
	var stack [][]*sx
	cur := []*sx{}
	i := 0
	for i < len(s) {
		c := s[i]
		switch {
		case c == '(':
			stack = append(stack, cur)
			cur = []*sx{}
			i++
		case c == ')':
			n := &sx{list: cur}
			if len(stack) == 0 {
				return cur
			}
			cur = append(stack[len(stack)-1], n)
			stack = stack[:len(stack)-1]
			i++
		case c == ' ' || c == '\n' || c == '\t' || c == '\r':
			i++
		case c == '"':
			j := i + 1
			for j < len(s) && s[j] != '"' {
				j++
			}
			cur = append(cur, &sx{atom: s[i : j+1]})
			i = j + 1
		default:
			j := i
			for j < len(s) && !strings.ContainsRune("() \n\t\r", rune(s[j])) {
				j++
			}
			cur = append(cur, &sx{atom: s[i:j]})
			i = j
		}
	}
	return cur
}

func (x *sx) String() string {
	if x.list == nil {
		return x.atom
	}
	var ps []string
	for _, e := range x.list {
		ps = append(ps, e.String())
	}
	return "(" + strings.Join(ps, " ") + ")"
}

// sxInt evaluates an integer literal s-expression: 5, (- 5).
func sxInt(x *sx) (*big.Int, bool) {
	if x.list == nil {
		n, ok := new(big.Int).SetString(x.atom, 10)
		return n, ok
	}
	if len(x.list) == 2 && x.list[0].atom == "-" {
		n, ok := sxInt(x.list[1])
		if !ok {
			return nil, false
		}
		return n.Neg(n), true
	}
	return nil, false
}

// ---------- model extraction ----------

type modelQuery struct {
	terms []string // SMT terms whose values we want
}

func fetchValues(rep *FuncReport, o *Obligation, extra []string, terms []string, timeoutS int) (map[string]string, string) {
	var b strings.Builder
	b.WriteString(buildSMT(rep, o, false))
	s := b.String()
	s = strings.Replace(s, "(check-sat)\n", "", 1)
	var q strings.Builder
	q.WriteString(s)
	for _, e := range extra {
		q.WriteString(e + "\n")
	}
	q.WriteString("(check-sat)\n(get-value (")
	for _, t := range terms {
		q.WriteString(t + " ")
	}
	q.WriteString("))\n")
	dir, _ := os.MkdirTemp("", "govc-model-")
	defer os.RemoveAll(dir)
	file := filepath.Join(dir, "m.smt2")
	os.WriteFile(file, []byte(q.String()), 0o644)
	for _, sp := range solverSpecs {
		st, out, _ := runSolver(context.Background(), sp, file, timeoutS, 0)
		if st != "sat" {
			continue
		}
		rest := strings.TrimSpace(strings.TrimPrefix(strings.TrimSpace(out), "sat"))
		parsed := parseSx(rest)
		vals := map[string]string{}
		if len(parsed) > 0 && parsed[0].list != nil {
			for _, pr := range parsed[0].list {
				if len(pr.list) == 2 {
					vals[pr.list[0].String()] = pr.list[1].String()
				}
			}
		}
		if len(vals) > 0 {
			return vals, sp.name
		}
	}
	return nil, ""
}

// ---------- parameter description ----------

type paramDesc struct {
	name  string
	typ   types.Type
	kind  string // int, bool, bytes, string, intarray
	n     int64  // array length
	terms []string
	val   Val
}

func norm(s string) string { return strings.Join(strings.Fields(s), " ") }

func (ri *ReplayInfo) describe(name string, typ types.Type, v Val, in *Interp) (*paramDesc, error) {
	d := &paramDesc{name: name, typ: typ, val: v}
	switch x := v.(type) {
	case Sc:
		switch x.T.Sort {
		case SInt:
			d.kind = "int"
			d.terms = []string{x.T.S}
		case SBool:
			d.kind = "bool"
			d.terms = []string{x.T.S}
		case SStr:
			d.kind = "string"
			d.terms = []string{"(slen " + x.T.S + ")"}
			for i := 0; i < replayMaxLen; i++ {
				d.terms = append(d.terms, fmt.Sprintf("(select (sarr %s) %d)", x.T.S, i))
			}
		default:
			return nil, fmt.Errorf("parameter %s of sort %s", name, x.T.Sort)
		}
	case ArrV:
		at, ok := typ.Underlying().(*types.Array)
		if !ok || elemSortOf(x.T.Sort) != SInt || at.Len() > 256 {
			return nil, fmt.Errorf("array parameter %s not replayable", name)
		}
		d.kind = "intarray"
		d.n = at.Len()
		for i := int64(0); i < at.Len(); i++ {
			d.terms = append(d.terms, fmt.Sprintf("(select %s %d)", x.T.S, i))
		}
	case SliceV:
		st, ok := typ.Underlying().(*types.Slice)
		if !ok {
			return nil, fmt.Errorf("slice parameter %s", name)
		}
		if _, _, isInt := intInfo(st.Elem()); !isInt {
			return nil, fmt.Errorf("slice parameter %s has non-integer elements", name)
		}
		d.kind = "bytes"
		if !isByteSlice(typ) {
			d.kind = "intslice"
		}
		d.terms = []string{x.Len.S, x.Nil.S}
		content, ok := in.initial[x.Reg]
		for i := 0; i < replayMaxLen; i++ {
			if ok {
				d.terms = append(d.terms, fmt.Sprintf("(select %s %d)", content.(ArrV).T.S, i))
			} else {
				d.terms = append(d.terms, "0") // content never read: any bytes do
			}
		}
	default:
		return nil, fmt.Errorf("parameter %s of kind %T is not replayable generically", name, v)
	}
	return d, nil
}

// rangeFacts: ground range constraints for the element terms of a parameter.
func (d *paramDesc) rangeFacts() []string {
	var elem types.Type
	first := 0
	switch d.kind {
	case "bytes", "intslice":
		elem = d.typ.Underlying().(*types.Slice).Elem()
		first = 2
	case "string":
		elem = types.Typ[types.Uint8]
		first = 1
	case "intarray":
		elem = d.typ.Underlying().(*types.Array).Elem()
	default:
		return nil
	}
	lo, hi, ok := intRange(elem)
	if !ok {
		return nil
	}
	var out []string
	for _, t := range d.terms[first:] {
		if t == "0" {
			continue
		}
		out = append(out, fmt.Sprintf("(assert (and (<= %s %s) (<= %s %s)))", BigLit(lo).S, t, t, BigLit(hi).S))
	}
	return out
}

type goImports struct {
	self  string
	paths map[string]string
}

func (g *goImports) qualifier(p *types.Package) string {
	if p.Path() == g.self {
		return ""
	}
	g.paths[p.Path()] = p.Name()
	return p.Name()
}

func bigOf(vals map[string]string, term string) (*big.Int, bool) {
	s, ok := vals[norm(term)]
	if !ok {
		return nil, false
	}
	p := parseSx(s)
	if len(p) != 1 {
		return nil, false
	}
	return sxInt(p[0])
}

// goLiteral renders the model value of a parameter as a Go expression.
func (d *paramDesc) goLiteral(vals map[string]string, g *goImports) (string, map[string]interface{}, error) {
	ts := types.TypeString(d.typ, g.qualifier)
	rec := map[string]interface{}{}
	switch d.kind {
	case "int":
		n, ok := bigOf(vals, d.terms[0])
		if !ok {
			return "", nil, fmt.Errorf("no value for %s", d.name)
		}
		rec["value"] = n.String()
		return fmt.Sprintf("%s(%s)", ts, n.String()), rec, nil
	case "bool":
		s := vals[norm(d.terms[0])]
		rec["value"] = s
		return fmt.Sprintf("%s(%s)", ts, s), rec, nil
	case "intarray":
		var es []string
		for _, t := range d.terms {
			n, ok := bigOf(vals, t)
			if !ok {
				return "", nil, fmt.Errorf("no value for %s", t)
			}
			es = append(es, n.String())
		}
		rec["value"] = es
		return fmt.Sprintf("%s{%s}", ts, strings.Join(es, ", ")), rec, nil
	case "bytes", "intslice", "string":
		n, ok := bigOf(vals, d.terms[0])
		if !ok || !n.IsInt64() || n.Int64() > replayMaxLen || n.Int64() < 0 {
			return "", nil, fmt.Errorf("length of %s not replayable (%v)", d.name, n)
		}
		off := 1
		isNil := false
		if d.kind != "string" {
			off = 2
			isNil = vals[norm(d.terms[1])] == "true"
		}
		var es []string
		for i := int64(0); i < n.Int64(); i++ {
			b, ok := bigOf(vals, d.terms[off+int(i)])
			if !ok {
				return "", nil, fmt.Errorf("no value for %s[%d]", d.name, i)
			}
			es = append(es, b.String())
		}
		rec["len"] = n.Int64()
		rec["elems"] = es
		if d.kind == "string" {
			return fmt.Sprintf("%s([]byte{%s})", ts, strings.Join(es, ", ")), rec, nil
		}
		if isNil && n.Sign() == 0 {
			rec["nil"] = true
			return fmt.Sprintf("%s(nil)", ts), rec, nil
		}
		return fmt.Sprintf("%s{%s}", ts, strings.Join(es, ", ")), rec, nil
	}
	return "", nil, fmt.Errorf("kind %s", d.kind)
}

// pins returns SMT assertions fixing the parameter to its model value.
func (d *paramDesc) pins(vals map[string]string) []string {
	var out []string
	lim := len(d.terms)
	if d.kind == "bytes" || d.kind == "intslice" || d.kind == "string" {
		if n, ok := bigOf(vals, d.terms[0]); ok && n.IsInt64() {
			off := 2
			if d.kind == "string" {
				off = 1
			}
			lim = off + int(n.Int64())
		}
	}
	for i, t := range d.terms {
		if i >= lim {
			break
		}
		if v, ok := vals[norm(t)]; ok {
			out = append(out, fmt.Sprintf("(assert (= %s %s))", t, v))
		}
	}
	return out
}

var replayOutRe = regexp.MustCompile(`GOVC-REPLAY-OUT: (\{.*\})`)

// replayOnRealCode is the generic replay entry point.
func replayOnRealCode(id string, o *Obligation, rep *FuncReport, inputs map[string]string, repo, verif string, cfg *PropConfig) (bool, interface{}) {
	detail := map[string]interface{}{}
	ri := rep.Replay
	if ok, d := runDriver(id, o, inputs, repo, verif, cfg); ok {
		return true, d
	}
	if ri == nil {
		return false, "no replay information (lemma or unsupported function) and no property-specific driver confirmed it"
	}
	if ri.HasRecv {
		return false, "method receivers are replayed by property-specific drivers only"
	}
	if o.Kind != "post" && o.Kind != "safe" {
		return false, "only post/safe obligations are replayed generically"
	}
	if strings.Contains(o.Name, "<-") {
		return false, "obligation inside an inlined callee"
	}
	// describe parameters using the original run's symbols
	in0 := &Interp{initial: ri.Initial}
	var descs []*paramDesc
	for i := 0; i < ri.Sig.Params().Len(); i++ {
		p := ri.Sig.Params().At(i)
		v, ok := ri.Params[p.Name()]
		if !ok {
			return false, fmt.Sprintf("unnamed parameter %d", i)
		}
		d, err := ri.describe(p.Name(), p.Type(), v, in0)
		if err != nil {
			return false, err.Error()
		}
		descs = append(descs, d)
	}
	var terms, small []string
	for _, d := range descs {
		terms = append(terms, d.terms...)
		if d.kind == "bytes" || d.kind == "intslice" || d.kind == "string" {
			small = append(small, fmt.Sprintf("(assert (<= %s %d))", d.terms[0], replayMaxLen))
		}
	}
	vals, solver := fetchValues(rep, o, small, terms, 5)
	if vals == nil {
		// model search without quantified hypotheses; element ranges are re-added
		// as ground facts for the queried terms.  Only used to find a replay input.
		o2 := *o
		o2.NoQuant = true
		extra := append([]string(nil), small...)
		for _, d := range descs {
			extra = append(extra, d.rangeFacts()...)
		}
		vals, solver = fetchValues(rep, &o2, extra, terms, 20)
		solver += " (quantified hypotheses dropped for model search)"
	}
	if vals == nil {
		return false, "no model with slice lengths <= 64 found by any solver"
	}
	nv := map[string]string{}
	for k, v := range vals {
		nv[norm(k)] = v
	}
	vals = nv
	detail["model_solver"] = solver
	g := &goImports{self: ri.PkgPath, paths: map[string]string{}}
	var lits []string
	inputsRec := map[string]interface{}{}
	for _, d := range descs {
		l, rec, err := d.goLiteral(vals, g)
		if err != nil {
			return false, err.Error()
		}
		lits = append(lits, l)
		inputsRec[d.name] = rec
	}
	detail["inputs"] = inputsRec
	// ground post evaluation context (collects sentinel errors mentioned by the clause)
	gc, err := newGroundCheck(ri, o)
	if err != nil {
		detail["ground_check"] = err.Error()
	}
	testSrc := ri.renderTest(lits, g, gc)
	detail["test"] = testSrc
	out, runErr := runOverlayTest(ri, testSrc, repo)
	m := replayOutRe.FindStringSubmatch(out)
	if m == nil {
		detail["test_output"] = trunc(out, 2000)
		if runErr != nil {
			detail["test_error"] = runErr.Error()
		}
		return false, detail
	}
	var res map[string]interface{}
	if err := json.Unmarshal([]byte(m[1]), &res); err != nil {
		detail["test_output"] = m[1]
		return false, detail
	}
	detail["real_outputs"] = res
	if p, ok := res["panic"]; ok && p != nil && p != "" {
		detail["verdict"] = "real code panics on this input"
		return o.Kind == "safe", detail
	}
	if o.Kind == "safe" {
		detail["verdict"] = "real code does not panic on this input"
		return false, detail
	}
	if gc == nil {
		return false, detail
	}
	violated, why := gc.check(descs, vals, res)
	detail["ground_verdict"] = why
	return violated, detail
}

func (ri *ReplayInfo) renderTest(lits []string, g *goImports, gc *groundCheck) string {
	var b strings.Builder
	var body strings.Builder
	n := ri.Sig.Results().Len()
	var rs []string
	for i := 0; i < n; i++ {
		rs = append(rs, fmt.Sprintf("r%d", i))
	}
	call := fmt.Sprintf("%s(%s)", ri.FuncName, strings.Join(lits, ", "))
	if n > 0 {
		fmt.Fprintf(&body, "\t%s := %s\n", strings.Join(rs, ", "), call)
	} else {
		fmt.Fprintf(&body, "\t%s\n", call)
	}
	usesErrors := false
	for i := 0; i < n; i++ {
		rt := ri.Sig.Results().At(i).Type()
		switch {
		case isErrorType(rt):
			fmt.Fprintf(&body, "\tout[\"r%d_nil\"] = r%d == nil\n\tif r%d != nil { out[\"r%d_msg\"] = r%d.Error() }\n", i, i, i, i, i)
			if gc != nil {
				for _, key := range gc.sentinels {
					expr := sentinelExpr(key, g)
					if expr == "" {
						continue
					}
					usesErrors = true
					fmt.Fprintf(&body, "\tout[%q] = govcErrors.Is(r%d, %s)\n", fmt.Sprintf("r%d_is_%s", i, key), i, expr)
				}
			}
		case isByteSlice(rt) || isString(rt):
			fmt.Fprintf(&body, "\tout[\"r%d\"] = govcBytes([]byte(r%d))\n\tout[\"r%d_nil\"] = %s\n", i, i, i, map[bool]string{true: "false", false: fmt.Sprintf("r%d == nil", i)}[isString(rt)])
		default:
			switch u := rt.Underlying().(type) {
			case *types.Array:
				_ = u
				fmt.Fprintf(&body, "\t{ var l []string; for _, e := range r%d { l = append(l, govcFmt.Sprint(e)) }; out[\"r%d\"] = l }\n", i, i)
			case *types.Slice:
				fmt.Fprintf(&body, "\t{ l := []string{}; for _, e := range r%d { l = append(l, govcFmt.Sprint(e)) }; out[\"r%d\"] = l; out[\"r%d_nil\"] = r%d == nil }\n", i, i, i, i)
			default:
				fmt.Fprintf(&body, "\tout[\"r%d\"] = govcFmt.Sprint(r%d)\n", i, i)
			}
		}
	}
	fmt.Fprintf(&b, "package %s\n\nimport (\n\tgovcJSON \"encoding/json\"\n\tgovcFmt \"fmt\"\n\t\"testing\"\n", ri.PkgName)
	if usesErrors {
		b.WriteString("\tgovcErrors \"errors\"\n")
	}
	var ips []string
	for p := range g.paths {
		ips = append(ips, p)
	}
	sort.Strings(ips)
	for _, p := range ips {
		fmt.Fprintf(&b, "\t%s %q\n", g.paths[p], p)
	}
	b.WriteString(")\n\n")
	b.WriteString("func govcBytes(b []byte) []string { l := []string{}; for _, e := range b { l = append(l, govcFmt.Sprint(e)) }; return l }\n\n")
	b.WriteString("func TestGovcReplay(t *testing.T) {\n\tout := map[string]interface{}{}\n")
	b.WriteString("\tdefer func() {\n\t\tif r := recover(); r != nil { out[\"panic\"] = govcFmt.Sprint(r) }\n\t\tj, _ := govcJSON.Marshal(out)\n\t\tgovcFmt.Println(\"GOVC-REPLAY-OUT: \" + string(j))\n\t}()\n")
	b.WriteString(body.String())
	b.WriteString("}\n")
	return b.String()
}

func sentinelExpr(key string, g *goImports) string {
	i := strings.LastIndex(key, ".")
	if i < 0 {
		return ""
	}
	pkg, name := key[:i], key[i+1:]
	if pkg == g.self {
		return name
	}
	if name == "" || !(name[0] >= 'A' && name[0] <= 'Z') {
		return ""
	}
	short := pkg[strings.LastIndex(pkg, "/")+1:]
	alias := "govc_" + sanitize(short)
	g.paths[pkg] = alias
	return alias + "." + name
}

func runOverlayTest(ri *ReplayInfo, src, repo string) (string, error) {
	dir, err := os.MkdirTemp("", "govc-replay-")
	if err != nil {
		return "", err
	}
	defer os.RemoveAll(dir)
	tf := filepath.Join(dir, "zz_govc_replay_test.go")
	os.WriteFile(tf, []byte(src), 0o644)
	ov := map[string]interface{}{"Replace": map[string]string{filepath.Join(ri.PkgDir, "zz_govc_replay_test.go"): tf}}
	oj, _ := json.Marshal(ov)
	of := filepath.Join(dir, "overlay.json")
	os.WriteFile(of, oj, 0o644)
	ctx, cancel := context.WithTimeout(context.Background(), 180*time.Second)
	defer cancel()
	cmd := exec.CommandContext(ctx, "go", "test", "-overlay", of, "-vet=off", "-count=1", "-v", "-timeout", "60s", "-run", "^TestGovcReplay$", ".")
	cmd.Dir = ri.PkgDir
	cmd.Env = append(os.Environ(), "GOFLAGS=-mod=mod", "GOPROXY=off")
	var buf bytes.Buffer
	cmd.Stdout = &buf
	cmd.Stderr = &buf
	err = cmd.Run()
	return buf.String(), err
}

// ---------- ground re-check of an ensures clause ----------

type groundCheck struct {
	in        *Interp
	rep       *FuncReport
	goal      Term
	hyps      []Term
	params    []*paramDesc
	results   []Val
	sig       *types.Signature
	sentinels []string
}

func clauseIndex(name string) int {
	// ...#post:K@retN
	i := strings.Index(name, "#post:")
	if i < 0 {
		return -1
	}
	rest := name[i+6:]
	if j := strings.Index(rest, "@"); j >= 0 {
		rest = rest[:j]
	}
	k, err := strconv.Atoi(rest)
	if err != nil {
		return -1
	}
	return k - 1
}

func newGroundCheck(ri *ReplayInfo, o *Obligation) (gc *groundCheck, err error) {
	if o.Kind != "post" {
		return nil, nil
	}
	k := clauseIndex(o.Name)
	if k < 0 || k >= len(ri.Contract.Ensures) {
		return nil, fmt.Errorf("cannot locate ensures clause of %s", o.Name)
	}
	defer func() {
		if r := recover(); r != nil {
			if u, ok := r.(*Unsupported); ok {
				err = u
				gc = nil
				return
			}
			panic(r)
		}
	}()
	in := NewInterp(ri.W)
	_, pk := ri.W.funcDecl(ri.Key)
	f := &Frame{in: in, pkg: pk.P, key: ri.Key, vars: map[types.Object]*Cell{}, tmap: map[string]types.Type{}}
	st := &State{store: map[*Cell]Val{}, ghost: map[string]Val{}}
	gc = &groundCheck{in: in, sig: ri.Sig}
	env := &SpecEnv{in: in, f: f, st: st, old: st, vars: map[string]Val{}, pkgPath: ri.PkgPath, lets: map[string]SExpr{}}
	for i := 0; i < ri.Sig.Params().Len(); i++ {
		p := ri.Sig.Params().At(i)
		v := in.freshVal(p.Name(), p.Type(), f)
		if sl, ok := v.(SliceV); ok {
			in.load(st, sl.Reg, f) // materialise content symbol
		}
		env.vars[p.Name()] = v
		d, derr := ri.describe(p.Name(), p.Type(), v, in)
		if derr != nil {
			return nil, derr
		}
		gc.params = append(gc.params, d)
	}
	for _, l := range ri.Contract.Lets {
		env.lets[l.Name] = l.E
	}
	for _, r := range ri.Contract.Requires {
		st.assume(env.evalBool(r.E))
	}
	for i := 0; i < ri.Sig.Results().Len(); i++ {
		rt := ri.Sig.Results().At(i).Type()
		v := in.freshVal(fmt.Sprintf("res%d", i), rt, f)
		if sl, ok := v.(SliceV); ok {
			in.load(st, sl.Reg, f)
		}
		gc.results = append(gc.results, v)
		env.vars[fmt.Sprintf("result%d", i)] = v
		if n := ri.Sig.Results().At(i).Name(); n != "" && n != "_" {
			env.vars[n] = v
		}
		if isErrorType(rt) {
			env.vars["err"] = v
		}
	}
	if len(gc.results) == 1 {
		env.vars["result"] = gc.results[0]
	}
	gc.goal = env.evalBool(ri.Contract.Ensures[k].E)
	gc.hyps = st.hyps
	for key := range in.errVars {
		gc.sentinels = append(gc.sentinels, key)
	}
	sort.Strings(gc.sentinels)
	return gc, nil
}

func jsonList(v interface{}) ([]string, bool) {
	l, ok := v.([]interface{})
	if !ok {
		return nil, false
	}
	var out []string
	for _, e := range l {
		out = append(out, fmt.Sprint(e))
	}
	return out, true
}

func smtInt(s string) string {
	if strings.HasPrefix(s, "-") {
		return "(- " + s[1:] + ")"
	}
	return s
}

// check pins inputs (from the model) and outputs (from the real run) and asks
// whether the ensures clause is violated.
func (gc *groundCheck) check(orig []*paramDesc, vals map[string]string, res map[string]interface{}) (bool, string) {
	in := gc.in
	var pins []string
	// inputs: transfer model values from the original symbols to this context's symbols
	for i, d := range gc.params {
		od := orig[i]
		lim := len(od.terms)
		if d.kind == "bytes" || d.kind == "intslice" || d.kind == "string" {
			if n, ok := bigOf(vals, od.terms[0]); ok && n.IsInt64() {
				off := 2
				if d.kind == "string" {
					off = 1
				}
				lim = off + int(n.Int64())
			}
		}
		for j := range d.terms {
			if j >= lim {
				break
			}
			if v, ok := vals[norm(od.terms[j])]; ok {
				pins = append(pins, fmt.Sprintf("(assert (= %s %s))", d.terms[j], v))
			}
		}
	}
	// outputs
	for i, v := range gc.results {
		rt := gc.sig.Results().At(i).Type()
		key := fmt.Sprintf("r%d", i)
		switch x := v.(type) {
		case Sc:
			switch x.T.Sort {
			case SInt:
				pins = append(pins, fmt.Sprintf("(assert (= %s %s))", x.T.S, smtInt(fmt.Sprint(res[key]))))
			case SBool:
				pins = append(pins, fmt.Sprintf("(assert (= %s %s))", x.T.S, fmt.Sprint(res[key])))
			case SErr:
				if res[key+"_nil"] == true {
					pins = append(pins, fmt.Sprintf("(assert (= %s err_nil))", x.T.S))
				} else {
					pins = append(pins, fmt.Sprintf("(assert (not (= %s err_nil)))", x.T.S))
					for _, sk := range gc.sentinels {
						isv, ok := res[fmt.Sprintf("r%d_is_%s", i, sk)]
						if !ok {
							continue
						}
						st := in.errVars[sk]
						f := fmt.Sprintf("(or (= %s %s) (err_wraps %s %s))", x.T.S, st.S, x.T.S, st.S)
						if isv == true {
							pins = append(pins, "(assert "+f+")")
						} else {
							pins = append(pins, "(assert (not "+f+"))")
						}
					}
				}
			case SStr:
				l, ok := jsonList(res[key])
				if !ok {
					return false, "missing output " + key
				}
				pins = append(pins, fmt.Sprintf("(assert (= (slen %s) %d))", x.T.S, len(l)))
				for j, e := range l {
					pins = append(pins, fmt.Sprintf("(assert (= (select (sarr %s) %d) %s))", x.T.S, j, e))
				}
			default:
				return false, "output of sort " + x.T.Sort + " cannot be pinned"
			}
		case ArrV:
			l, ok := jsonList(res[key])
			if !ok {
				return false, "missing output " + key
			}
			for j, e := range l {
				pins = append(pins, fmt.Sprintf("(assert (= (select %s %d) %s))", x.T.S, j, smtInt(e)))
			}
		case SliceV:
			l, ok := jsonList(res[key])
			if !ok {
				return false, "missing output " + key
			}
			content := in.initial[x.Reg].(ArrV).T
			pins = append(pins, fmt.Sprintf("(assert (= %s %d))", x.Len.S, len(l)))
			pins = append(pins, fmt.Sprintf("(assert (= %s %s))", x.Nil.S, fmt.Sprint(res[key+"_nil"] == true)))
			for j, e := range l {
				pins = append(pins, fmt.Sprintf("(assert (= (select %s %d) %s))", content.S, j, smtInt(e)))
			}
		default:
			_ = rt
			return false, fmt.Sprintf("output %d of kind %T cannot be pinned", i, v)
		}
	}
	rep := &FuncReport{Decls: in.D.lines, Global: in.global, D: in.D}
	o := &Obligation{Hyps: gc.hyps, Goal: gc.goal, Extra: pins}
	// Extra is emitted before the hypotheses; declarations are complete at this point.
	dir, _ := os.MkdirTemp("", "govc-ground-")
	defer os.RemoveAll(dir)
	file := filepath.Join(dir, "g.smt2")
	os.WriteFile(file, []byte(buildSMT(rep, o, false)), 0o644)
	verdicts := map[string]string{}
	for _, sp := range solverSpecs {
		st, _, _ := runSolver(context.Background(), sp, file, 20, 0)
		verdicts[sp.name] = st
		if st == "sat" {
			return true, "ensures clause is violated by the real outputs (ground check sat by " + sp.name + ")"
		}
		if st == "unsat" {
			return false, "real outputs satisfy the ensures clause on this input (ground check unsat by " + sp.name + "): model was an artefact"
		}
	}
	// Quantified axioms keep solvers from answering sat.  When the pinned clause does not
	// involve axiomatised function symbols, the quantifier-free problem is exact.
	text := o.Goal.S
	for _, h := range gc.hyps {
		text += h.S
	}
	axiomatised := false
	for _, sym := range []string{"mkstr", "sconcat", "hex_", "checksum", "hash256", "uf_", "(exists"} {
		if strings.Contains(text, sym) {
			axiomatised = true
		}
	}
	if !axiomatised {
		o.NoQuant = true
		os.WriteFile(file, []byte(buildSMT(rep, o, false)), 0o644)
		for _, sp := range solverSpecs {
			st, _, _ := runSolver(context.Background(), sp, file, 20, 0)
			if st == "sat" {
				return true, "ensures clause is violated by the real outputs (ground check, quantifier-free, sat by " + sp.name + ")"
			}
			if st == "unsat" {
				return false, "real outputs satisfy the ensures clause on this input (quantifier-free ground check unsat by " + sp.name + ")"
			}
		}
	}
	return false, fmt.Sprintf("ground check undecided: %v", verdicts)
}
