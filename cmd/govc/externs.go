package main

// Trusted native models of functions whose bodies are outside the repository
// (standard library, avalanchego).  Every use is recorded in the evidence
// `trusted_base` through Interp.note.

import (
	"fmt"
	"go/ast"
	"go/constant"
	"go/types"
	"math/big"
	"strings"
)

type externFn func(f *Frame, call *ast.CallExpr, recv Val, args []Val, st *State) []Val

var externs map[string]externFn

const prelude = `
(declare-sort Str 0)
(declare-sort Err 0)
(declare-sort Ref 0)
(declare-const ref_nil Ref)
(declare-const err_nil Err)
(declare-fun err_wraps (Err Err) Bool)
(assert (forall ((e Err)) (! (not (err_wraps err_nil e)) :pattern ((err_wraps err_nil e)))))
(declare-fun slen (Str) Int)
(declare-fun sarr (Str) (Array Int Int))
(declare-fun snil (Str) Bool)
(declare-fun mkstr ((Array Int Int) Int Int) Str)
(declare-fun sconcat (Str Str) Str)
(declare-fun ashift ((Array Int Int) Int) (Array Int Int))
(assert (forall ((a (Array Int Int)) (o Int) (j Int)) (! (= (select (ashift a o) j) (select a (+ o j))) :pattern ((select (ashift a o) j)))))
(define-fun godiv ((a Int) (b Int)) Int (ite (>= a 0) (div a b) (- (div (- a) b))))
(define-fun gorem ((a Int) (b Int)) Int (ite (>= a 0) (mod a (abs b)) (- (mod (- a) (abs b)))))
(define-fun str_eq ((s Str) (t Str)) Bool (= s t))
(assert (forall ((s Str)) (! (and (>= (slen s) 0) (<= (slen s) 140737488355328)) :pattern ((slen s)))))
(assert (forall ((a (Array Int Int)) (o Int) (l Int)) (! (=> (>= l 0) (= (slen (mkstr a o l)) l)) :pattern ((mkstr a o l)))))
(assert (forall ((a (Array Int Int)) (o Int) (l Int) (j Int)) (! (=> (and (<= 0 j) (< j l)) (= (select (sarr (mkstr a o l)) j) (select a (+ o j)))) :pattern ((select (sarr (mkstr a o l)) j)))))
(assert (forall ((s Str) (o Int) (l Int)) (! (=> (and (= o 0) (= l (slen s))) (= (mkstr (sarr s) o l) s)) :pattern ((mkstr (sarr s) o l)))))
(assert (forall ((a Str) (b Str) (o Int) (l Int)) (! (and (=> (and (= o 0) (= l (slen a))) (= (mkstr (sarr (sconcat a b)) o l) a)) (=> (and (= o (slen a)) (= l (slen b))) (= (mkstr (sarr (sconcat a b)) o l) b))) :pattern ((mkstr (sarr (sconcat a b)) o l)))))
(assert (forall ((a Str) (b Str)) (! (= (slen (sconcat a b)) (+ (slen a) (slen b))) :pattern ((sconcat a b)))))
(assert (forall ((a Str) (b Str) (c Str)) (! (=> (= (sconcat a b) (sconcat a c)) (= b c)) :pattern ((sconcat a b) (sconcat a c)))))
(assert (forall ((a Str) (b Str) (c Str)) (! (=> (and (= (sconcat a c) (sconcat b c))) (= a b)) :pattern ((sconcat a c) (sconcat b c)))))
(assert (forall ((a Str) (b Str) (j Int)) (! (=> (and (<= 0 j) (< j (+ (slen a) (slen b)))) (= (select (sarr (sconcat a b)) j) (ite (< j (slen a)) (select (sarr a) j) (select (sarr b) (- j (slen a)))))) :pattern ((select (sarr (sconcat a b)) j)))))
`

// extensionality of byte strings, instantiated on demand: two strings with the
// same length and the same bytes are equal.
func strExtAxiom(s, t Term) Term {
	j := Term{S: "j!ext", Sort: SInt}
	return Implies(And(Eq(App("slen", SInt, s), App("slen", SInt, t)),
		Forall([]Term{j}, Implies(And(Le(IntLit(0), j), Lt(j, App("slen", SInt, s))),
			Eq(Select(App("sarr", ArrSort(SInt), s), j), Select(App("sarr", ArrSort(SInt), t), j))))), Eq(s, t))
}

func resultType0(f *Frame, call *ast.CallExpr) types.Type {
	t := f.pkg.TypesInfo.Types[call].Type
	if tup, ok := t.(*types.Tuple); ok {
		return f.resolve(tup.At(0).Type())
	}
	return f.resolve(t)
}

func (f *Frame) errFresh(st *State, hint string) Term {
	e := f.in.D.fresh(hint, SErr)
	st.assume(Not(Eq(e, f.in.errNil())))
	return e
}

func checkedArith(op string) externFn {
	return func(f *Frame, call *ast.CallExpr, recv Val, args []Val, st *State) []Val {
		in := f.in
		t := resultType0(f, call)
		a, b := args[0].(Sc).T, args[1].(Sc).T
		var exact Term
		switch op {
		case "add":
			exact = Add(a, b)
		case "sub":
			exact = Sub(a, b)
		case "mul":
			exact = Mul(a, b)
		}
		ok := inRange(exact, t)
		errT := in.errSentinel("github.com/ava-labs/avalanchego/utils/math.Err" + map[string]string{"add": "Overflow", "sub": "Underflow", "mul": "Overflow"}[op])
		r := in.D.fresh("m"+op, SInt)
		e := in.D.fresh("m"+op+"_err", SErr)
		st.assume(Ite(ok, And(Eq(r, exact), Eq(e, in.errNil())), And(Eq(r, IntLit(0)), Eq(e, errT))))
		st.assume(inRange(r, t))
		return []Val{Sc{r}, Sc{e}}
	}
}

func beRead(n int) externFn {
	return func(f *Frame, call *ast.CallExpr, recv Val, args []Val, st *State) []Val {
		b := args[0].(SliceV)
		f.safe(st, "idx", call.Pos(), Le(IntLit(int64(n)), b.Len))
		arr := f.in.regionContent(st, b.Reg, f)
		r := f.in.D.fresh("be", SInt)
		st.assume(Eq(r, be(arr, b.Off, n)))
		st.assume(And(Le(IntLit(0), r), Lt(r, BigLit(pow2(uint(8*n))))))
		return []Val{Sc{r}}
	}
}

// writeBE stores the big-endian encoding of v at reg[off .. off+n).
func (f *Frame) writeBE(reg *Cell, off Term, v Term, n int, st *State) {
	in := f.in
	old := in.load(st, reg, f).(ArrV)
	if !off.IsLit() {
		// symbolic offset: a fresh array with a frame axiom (one quantifier instead of
		// n nested stores whose indices would all need case splits)
		na := in.D.fresh("put", old.T.Sort)
		sum := IntLit(0)
		for k := 0; k < n; k++ {
			bk := Select(na, Add(off, IntLit(int64(k))))
			st.assume(And(Le(IntLit(0), bk), Le(bk, IntLit(255))))
			sum = Add(sum, Mul(BigLit(pow2(uint(8*(n-1-k)))), bk))
		}
		st.assume(Eq(sum, v))
		j := Term{S: "j", Sort: SInt}
		st.assume(Forall([]Term{j}, Implies(Or(Lt(j, off), Le(Add(off, IntLit(int64(n))), j)), Eq(Select(na, j), Select(old.T, j))), []Term{Select(na, j)}))
		st.store[reg] = ArrV{T: na, N: old.N}
		return
	}
	cur := old.T
	sum := IntLit(0)
	for k := 0; k < n; k++ {
		bk := in.D.fresh("byte", SInt)
		st.assume(And(Le(IntLit(0), bk), Le(bk, IntLit(255))))
		sum = Add(sum, Mul(BigLit(pow2(uint(8*(n-1-k)))), bk))
		cur = Store(cur, Add(off, IntLit(int64(k))), bk)
	}
	st.assume(Eq(sum, v))
	st.store[reg] = ArrV{T: f.nameIt(st, "put", cur), N: old.N}
}

func bePut(n int) externFn {
	return func(f *Frame, call *ast.CallExpr, recv Val, args []Val, st *State) []Val {
		b := args[0].(SliceV)
		f.safe(st, "idx", call.Pos(), Le(IntLit(int64(n)), b.Len))
		f.writeBE(b.Reg, b.Off, args[1].(Sc).T, n, st)
		return nil
	}
}

func beAppend(n int) externFn {
	return func(f *Frame, call *ast.CallExpr, recv Val, args []Val, st *State) []Val {
		in := f.in
		b := args[0].(SliceV)
		content := in.regionContent(st, b.Reg, f)
		reg := in.newCell("append", CRegion, types.Typ[types.Uint8])
		var cur Term
		if b.Off.IsLit() && b.Off.lit.Sign() == 0 {
			cur = content
		} else {
			cur = in.D.fresh("app", ArrSort(SInt))
			j := Term{S: "j", Sort: SInt}
			st.assume(Forall([]Term{j}, Implies(And(Le(IntLit(0), j), Lt(j, b.Len)), Eq(Select(cur, j), Select(content, Add(b.Off, j)))), []Term{Select(cur, j)}))
			in.arrayRangeAxiomSt(cur, types.Typ[types.Uint8], st)
		}
		st.store[reg] = ArrV{T: cur}
		f.writeBE(reg, b.Len, args[1].(Sc).T, n, st)
		nl := f.nameIt(st, "applen", Add(b.Len, IntLit(int64(n))))
		cp := in.D.fresh("appcap", SInt)
		st.assume(And(Le(nl, cp), Le(cp, IntLit(maxSliceLen))))
		in.note("append result modelled as a fresh backing array (no aliasing with the argument observed)")
		return []Val{SliceV{Reg: reg, Off: IntLit(0), Len: nl, Cap: cp, Nil: TFalse}}
	}
}

func (f *Frame) strOfSlice(v Val, st *State) Term {
	switch b := v.(type) {
	case SliceV:
		return f.in.mkStr(b, st, f)
	case Sc:
		return b.T
	case ArrV:
		return App("mkstr", SStr, b.T, IntLit(0), IntLit(b.N))
	}
	panic(&Unsupported{Msg: "strOfSlice"})
}

func init() {
	externs = map[string]externFn{}
	const amath = "github.com/ava-labs/avalanchego/utils/math."
	externs[amath+"Add"] = checkedArith("add")
	externs[amath+"Add64"] = checkedArith("add")
	externs[amath+"Sub"] = checkedArith("sub")
	externs[amath+"Mul"] = checkedArith("mul")
	externs[amath+"Mul64"] = checkedArith("mul")
	for _, rk := range []string{"encoding/binary.(bigEndian).", "encoding/binary.bigEndian."} {
		externs[rk+"Uint64"] = beRead(8)
		externs[rk+"Uint32"] = beRead(4)
		externs[rk+"Uint16"] = beRead(2)
		externs[rk+"PutUint64"] = bePut(8)
		externs[rk+"PutUint32"] = bePut(4)
		externs[rk+"PutUint16"] = bePut(2)
		externs[rk+"AppendUint64"] = beAppend(8)
		externs[rk+"AppendUint32"] = beAppend(4)
		externs[rk+"AppendUint16"] = beAppend(2)
	}
	externs["bytes.Equal"] = func(f *Frame, call *ast.CallExpr, recv Val, args []Val, st *State) []Val {
		a, b := f.strOfSlice(args[0], st), f.strOfSlice(args[1], st)
		// exact: equal iff same length and same bytes
		r := f.in.D.fresh("bytes_equal", SBool)
		j := Term{S: "j!be", Sort: SInt}
		same := And(Eq(App("slen", SInt, a), App("slen", SInt, b)),
			Forall([]Term{j}, Implies(And(Le(IntLit(0), j), Lt(j, App("slen", SInt, a))),
				Eq(Select(App("sarr", ArrSort(SInt), a), j), Select(App("sarr", ArrSort(SInt), b), j)))))
		st.assume(Eq(r, same))
		st.assume(Implies(Eq(a, b), r))
		st.assume(strExtAxiom(a, b))
		return []Val{Sc{r}}
	}
	externs["bytes.HasPrefix"] = func(f *Frame, call *ast.CallExpr, recv Val, args []Val, st *State) []Val {
		a, b := f.strOfSlice(args[0], st), f.strOfSlice(args[1], st)
		return []Val{Sc{f.in.hasPrefixUF(a, b)}}
	}
	externs[".error.Error"] = func(f *Frame, call *ast.CallExpr, recv Val, args []Val, st *State) []Val {
		f.in.D.declareFun("err_msg", []string{SErr}, SStr)
		return []Val{Sc{App("err_msg", SStr, recv.(Sc).T)}}
	}
	externs["errors.New"] = func(f *Frame, call *ast.CallExpr, recv Val, args []Val, st *State) []Val {
		return []Val{Sc{f.errFresh(st, "errnew")}}
	}
	externs["errors.Is"] = func(f *Frame, call *ast.CallExpr, recv Val, args []Val, st *State) []Val {
		a, b := args[0].(Sc).T, args[1].(Sc).T
		return []Val{Sc{Or(Eq(a, b), App("err_wraps", SBool, a, b))}}
	}
	externs["encoding/hex.EncodeToString"] = func(f *Frame, call *ast.CallExpr, recv Val, args []Val, st *State) []Val {
		f.in.declareHex()
		s := f.strOfSlice(args[0], st)
		return []Val{Sc{App("hex_enc", SStr, s)}}
	}
	externs["encoding/hex.DecodeString"] = func(f *Frame, call *ast.CallExpr, recv Val, args []Val, st *State) []Val {
		in := f.in
		in.declareHex()
		s := args[0].(Sc).T
		ok := App("hex_ok", SBool, s)
		e := in.D.fresh("hexerr", SErr)
		st.assume(Eq(Eq(e, in.errNil()), ok))
		d := App("hex_dec", SStr, s)
		res := in.thawFresh(d, st).(SliceV)
		return []Val{res, Sc{e}}
	}
	const hashing = "github.com/ava-labs/avalanchego/utils/hashing."
	externs[hashing+"Checksum"] = func(f *Frame, call *ast.CallExpr, recv Val, args []Val, st *State) []Val {
		in := f.in
		in.declareChecksum()
		s := f.strOfSlice(args[0], st)
		n := args[1].(Sc).T
		c := App("checksum", SStr, s, n)
		st.assume(Eq(App("slen", SInt, c), n))
		in.note("hashing.Checksum: uninterpreted function of (bytes, length) with len(result)==length")
		return []Val{in.thawFresh(c, st)}
	}
	externs[hashing+"ComputeHash256Array"] = func(f *Frame, call *ast.CallExpr, recv Val, args []Val, st *State) []Val {
		in := f.in
		in.D.declareFun("hash256", []string{SStr}, ArrSort(SInt))
		s := f.strOfSlice(args[0], st)
		h := App("hash256", ArrSort(SInt), s)
		in.arrayRangeAxiomSt(h, types.Typ[types.Uint8], st)
		in.note("hashing.ComputeHash256Array: uninterpreted function of the bytes (collision freedom NOT assumed)")
		return []Val{ArrV{T: h, N: 32}}
	}
	// math/big.Int as a mathematical integer
	bigVal := func(f *Frame, v Val, st *State) Term {
		if p, ok := v.(PtrV); ok {
			return f.in.load(st, p.To, f).(Sc).T
		}
		return v.(Sc).T
	}
	bigSet := func(f *Frame, recv Val, t Term, st *State) []Val {
		p := recv.(PtrV)
		st.store[p.To] = Sc{f.nameIt(st, "big", t)}
		return []Val{recv}
	}
	const bi = "math/big.(*Int)."
	externs[bi+"SetUint64"] = func(f *Frame, call *ast.CallExpr, recv Val, args []Val, st *State) []Val {
		return bigSet(f, recv, args[0].(Sc).T, st)
	}
	externs[bi+"SetInt64"] = externs[bi+"SetUint64"]
	// SetBytes: the big-endian unsigned value of the bytes (slices of literal length up to 64)
	externs[bi+"SetBytes"] = func(f *Frame, call *ast.CallExpr, recv Val, args []Val, st *State) []Val {
		b := args[0].(SliceV)
		if !b.Len.IsLit() || b.Len.lit.Int64() > 64 {
			f.in.unsupported(call.Pos(), "big.Int.SetBytes of a slice whose length is not a small constant")
		}
		return bigSet(f, recv, be(f.in.regionContent(st, b.Reg, f), b.Off, int(b.Len.lit.Int64())), st)
	}
	// crypto primitives: deterministic, uninterpreted
	externs["crypto/elliptic.P256"] = func(f *Frame, call *ast.CallExpr, recv Val, args []Val, st *State) []Val {
		f.in.D.declareSort("Iface")
		f.in.D.declareOnce("p256", "(declare-const curve_p256 Iface)")
		return []Val{Sc{Term{S: "curve_p256", Sort: "Iface"}}}
	}
	externs["crypto/elliptic.UnmarshalCompressed"] = func(f *Frame, call *ast.CallExpr, recv Val, args []Val, st *State) []Val {
		in := f.in
		mk := func(h string) Val {
			c := in.newCell(h, CVar, nil)
			st.store[c] = Sc{in.D.fresh(h, SInt)}
			return PtrV{To: c, Nil: in.D.fresh(h+"_nil", SBool)}
		}
		in.note("elliptic.UnmarshalCompressed: arbitrary point or nil (curve arithmetic not modelled)")
		return []Val{mk("px"), mk("py")}
	}
	externs["crypto/sha256.Sum256"] = func(f *Frame, call *ast.CallExpr, recv Val, args []Val, st *State) []Val {
		in := f.in
		in.D.declareFun("sha256", []string{SStr}, ArrSort(SInt))
		h := App("sha256", ArrSort(SInt), f.strOfSlice(args[0], st))
		in.arrayRangeAxiomSt(h, types.Typ[types.Uint8], st)
		in.note("sha256.Sum256: uninterpreted function of the bytes")
		return []Val{ArrV{T: h, N: 32}}
	}
	externs["crypto/ecdsa.Verify"] = func(f *Frame, call *ast.CallExpr, recv Val, args []Val, st *State) []Val {
		f.in.note("ecdsa.Verify: arbitrary verdict (curve arithmetic not modelled)")
		return []Val{Sc{f.in.D.fresh("ecdsa_ok", SBool)}}
	}
	externs[bi+"Set"] = func(f *Frame, call *ast.CallExpr, recv Val, args []Val, st *State) []Val {
		return bigSet(f, recv, bigVal(f, args[0], st), st)
	}
	bigBin := func(op func(a, b Term) Term, needNonZero bool) externFn {
		return func(f *Frame, call *ast.CallExpr, recv Val, args []Val, st *State) []Val {
			a, b := bigVal(f, args[0], st), bigVal(f, args[1], st)
			if needNonZero {
				f.safe(st, "div0", call.Pos(), Not(Eq(b, IntLit(0))))
			}
			return bigSet(f, recv, op(a, b), st)
		}
	}
	externs[bi+"Add"] = bigBin(Add, false)
	externs[bi+"Sub"] = bigBin(Sub, false)
	externs[bi+"Mul"] = bigBin(Mul, false)
	externs[bi+"Div"] = bigBin(EDiv, true) // Euclidean division
	externs[bi+"Quo"] = bigBin(GoDiv, true)
	externs[bi+"IsUint64"] = func(f *Frame, call *ast.CallExpr, recv Val, args []Val, st *State) []Val {
		v := bigVal(f, recv, st)
		return []Val{Sc{And(Le(IntLit(0), v), Le(v, BigLit(new(big.Int).Sub(pow2(64), big.NewInt(1)))))}}
	}
	externs[bi+"Uint64"] = func(f *Frame, call *ast.CallExpr, recv Val, args []Val, st *State) []Val {
		return []Val{Sc{f.nameIt(st, "bigu64", WrapU(bigVal(f, recv, st), 64))}}
	}
	externs[bi+"Sign"] = func(f *Frame, call *ast.CallExpr, recv Val, args []Val, st *State) []Val {
		v := bigVal(f, recv, st)
		return []Val{Sc{Ite(Lt(v, IntLit(0)), IntLit(-1), Ite(Eq(v, IntLit(0)), IntLit(0), IntLit(1)))}}
	}
	externs[bi+"Cmp"] = func(f *Frame, call *ast.CallExpr, recv Val, args []Val, st *State) []Val {
		v, y := bigVal(f, recv, st), bigVal(f, args[0], st)
		return []Val{Sc{Ite(Lt(v, y), IntLit(-1), Ite(Eq(v, y), IntLit(0), IntLit(1)))}}
	}
	// avalanchego/utils/maybe.Maybe[T]: struct {hasValue bool; value T}
	const mb = "github.com/ava-labs/avalanchego/utils/maybe."
	maybeStruct := func(f *Frame, call *ast.CallExpr) *types.Struct {
		t := f.pkg.TypesInfo.Types[call].Type
		return f.resolve(t).Underlying().(*types.Struct)
	}
	externs[mb+"Some"] = func(f *Frame, call *ast.CallExpr, recv Val, args []Val, st *State) []Val {
		u := maybeStruct(f, call)
		return []Val{StructV{Typ: u, F: []Val{Sc{TTrue}, args[0]}}}
	}
	externs[mb+"Nothing"] = func(f *Frame, call *ast.CallExpr, recv Val, args []Val, st *State) []Val {
		t := f.resolve(f.pkg.TypesInfo.Types[call].Type)
		return []Val{f.in.zeroVal(t, f)}
	}
	mget := func(recv Val, f *Frame, st *State) StructV {
		if p, ok := recv.(PtrV); ok {
			return f.in.load(st, p.To, f).(StructV)
		}
		return recv.(StructV)
	}
	externs[mb+"(Maybe).IsNothing"] = func(f *Frame, call *ast.CallExpr, recv Val, args []Val, st *State) []Val {
		return []Val{Sc{Not(mget(recv, f, st).F[0].(Sc).T)}}
	}
	externs[mb+"(Maybe).HasValue"] = func(f *Frame, call *ast.CallExpr, recv Val, args []Val, st *State) []Val {
		return []Val{Sc{mget(recv, f, st).F[0].(Sc).T}}
	}
	externs[mb+"(Maybe).Value"] = func(f *Frame, call *ast.CallExpr, recv Val, args []Val, st *State) []Val {
		return []Val{mget(recv, f, st).F[1]}
	}
	externs["math/big.NewInt"] = func(f *Frame, call *ast.CallExpr, recv Val, args []Val, st *State) []Val {
		c := f.in.newCell("bigint", CVar, nil)
		st.store[c] = Sc{args[0].(Sc).T}
		return []Val{PtrV{To: c, Nil: TFalse}}
	}
	externsRaw = map[string]func(f *Frame, call *ast.CallExpr, st *State) []Val{}
	// sort.SliceStable(x, less): x becomes a permutation of its old content; the comparator
	// is assumed pure (it is not executed symbolically).
	externsRaw["sort.SliceStable"] = func(f *Frame, call *ast.CallExpr, st *State) []Val {
		in := f.in
		sl, ok := f.evalExpr(call.Args[0], st).(SliceV)
		if !ok {
			in.unsupported(call.Pos(), "sort.SliceStable on non-slice")
		}
		old := in.load(st, sl.Reg, f).(ArrV)
		na := in.D.fresh("sorted", old.T.Sort)
		perm := in.D.fresh("perm", ArrSort(SInt))
		x := Term{S: "x", Sort: SInt}
		y := Term{S: "y", Sort: SInt}
		inr := func(v Term) Term { return And(Le(IntLit(0), v), Lt(v, sl.Len)) }
		st.assume(Forall([]Term{x}, Implies(inr(x), And(inr(Select(perm, x)), Eq(Select(na, Add(sl.Off, x)), Select(old.T, Add(sl.Off, Select(perm, x)))))), []Term{Select(na, Add(sl.Off, x))}))
		st.assume(Forall([]Term{x, y}, Implies(And(inr(x), inr(y), Not(Eq(x, y))), Not(Eq(Select(perm, x), Select(perm, y)))), []Term{Select(perm, x), Select(perm, y)}))
		st.assume(Forall([]Term{x}, Implies(Not(inr(x)), Eq(Select(na, Add(sl.Off, x)), Select(old.T, Add(sl.Off, x)))), []Term{Select(na, Add(sl.Off, x))}))
		st.store[sl.Reg] = ArrV{T: na, N: old.N}
		in.note("sort.SliceStable: the slice becomes a permutation of its old content (injective index map); the comparator is assumed pure and is not executed")
		return nil
	}
	externsRaw["fmt.Errorf"] = func(f *Frame, call *ast.CallExpr, st *State) []Val {
		in := f.in
		e := f.errFresh(st, "errorf")
		format := ""
		if tv, ok := f.pkg.TypesInfo.Types[call.Args[0]]; ok && tv.Value != nil && tv.Value.Kind() == constant.String {
			format = constant.StringVal(tv.Value)
		}
		wraps := strings.Contains(format, "%w")
		for _, a := range call.Args[1:] {
			at := f.typeOf(a)
			if isErrorType(at) {
				v := f.evalExpr(a, st).(Sc).T
				if wraps {
					st.assume(App("err_wraps", SBool, e, v))
				}
			} else {
				f.evalForEffect(a, st)
			}
		}
		in.note("fmt.Errorf: fresh non-nil error, wrapping its error operands when the format has %w")
		return []Val{Sc{e}}
	}
	externsRaw["fmt.Sprintf"] = func(f *Frame, call *ast.CallExpr, st *State) []Val {
		for _, a := range call.Args[1:] {
			f.evalForEffect(a, st)
		}
		return []Val{Sc{f.in.D.fresh("sprintf", SStr)}}
	}
}

var externsRaw map[string]func(f *Frame, call *ast.CallExpr, st *State) []Val

// evalForEffect evaluates an argument only for its safety obligations.
func (f *Frame) evalForEffect(a ast.Expr, st *State) {
	defer func() {
		if r := recover(); r != nil {
			if _, ok := r.(*Unsupported); ok {
				return // formatting operand outside the subset: value irrelevant
			}
			panic(r)
		}
	}()
	f.evalExpr(a, st)
}

func hasPrefixTerm(s, p Term) Term {
	j := Term{S: "j!hp", Sort: SInt}
	return And(Le(App("slen", SInt, p), App("slen", SInt, s)),
		Forall([]Term{j}, Implies(And(Le(IntLit(0), j), Lt(j, App("slen", SInt, p))),
			Eq(Select(App("sarr", ArrSort(SInt), s), j), Select(App("sarr", ArrSort(SInt), p), j)))))
}

func (in *Interp) declareHex() {
	in.D.declareFun("hex_enc", []string{SStr}, SStr)
	in.D.declareFun("hex_dec", []string{SStr}, SStr)
	in.D.declareFun("hex_ok", []string{SStr}, SBool)
	in.D.declareOnce("hex_axioms", `(assert (forall ((x Str)) (! (and (hex_ok (hex_enc x)) (= (hex_dec (hex_enc x)) x) (= (slen (hex_enc x)) (* 2 (slen x)))) :pattern ((hex_enc x)))))
(assert (forall ((s Str)) (! (=> (hex_ok s) (= (* 2 (slen (hex_dec s))) (slen s))) :pattern ((hex_dec s)))))`)
	in.note("encoding/hex: EncodeToString/DecodeString as uninterpreted inverse pair (decode(encode x)=x, lengths 2n<->n, decode ok only on even length)")
}

// hasPrefixUF: bytes.HasPrefix as a predicate symbol with its defining axiom.
func (in *Interp) hasPrefixUF(s, p Term) Term {
	in.D.declareFun("bytes_hasprefix", []string{SStr, SStr}, SBool)
	in.D.declareOnce("bytes_hasprefix_def", "(assert (forall ((s Str) (p Str)) (! (= (bytes_hasprefix s p) "+hasPrefixTerm(Term{S: "s", Sort: SStr}, Term{S: "p", Sort: SStr}).S+") :pattern ((bytes_hasprefix s p)))))")
	return App("bytes_hasprefix", SBool, s, p)
}

func (in *Interp) declareChecksum() {
	in.D.declareFun("checksum", []string{SStr, SInt}, SStr)
	in.D.declareOnce("checksum_len", "(assert (forall ((s Str) (n Int)) (! (=> (>= n 0) (= (slen (checksum s n)) n)) :pattern ((checksum s n)))))")
}

// ---------- ghost model of avalanchego database.Database / Batch ----------
//
// A database value (interface term d) owns a ghost map cell dbmap(d): string -> []byte.
// Get/Has/Put/Delete act on it directly; a Batch collects Put/Delete operations and
// applies them, in order, on Write.  dbhealthy(d) (uninterpreted) means: the store
// does not fail -- every write succeeds and Get fails only with ErrNotFound for an
// absent key.  Without it a failing call returns an arbitrary non-nil error and
// (for writes) has no effect.

type BatchV struct {
	DB  *Cell
	D   Term
	Ops []batchOp
	// Base: the batch's content at a loop head (arbitrary iteration): touched keys, put-vs-delete,
	// value put; nil = empty.  The concrete Ops are applied after it.
	Base *batchBase
}

type batchBase struct{ T, H, V Term }

// IterV: a database iterator over the keys that had the prefix when it was created.
type IterV struct {
	DB0    MapC
	D      Term
	Prefix Term
	Cur    Term
}

// batchEffect: the net effect of the batch on key k (touched, isPut, value).
func batchEffect(b BatchV, k Term) (touched, isPut, val Term) {
	touched, isPut = TFalse, TFalse
	val = Term{}
	if b.Base != nil {
		touched, isPut, val = Select(b.Base.T, k), Select(b.Base.H, k), Select(b.Base.V, k)
	}
	for _, op := range b.Ops {
		hit := Eq(k, op.k)
		touched = Or(hit, touched)
		if op.del {
			isPut = And(Not(hit), isPut)
		} else {
			isPut = Or(hit, isPut)
			if val.S == "" {
				val = op.v
			} else {
				val = Ite(hit, op.v, val)
			}
		}
	}
	return
}

func (in *Interp) havocBatch(b BatchV) BatchV {
	ks := MapSortOf(SStr, SBool)
	return BatchV{DB: b.DB, D: b.D, Base: &batchBase{T: in.D.fresh("batch_t", ks), H: in.D.fresh("batch_h", ks), V: in.D.fresh("batch_v", MapSortOf(SStr, SStr))}}
}

type batchOp struct {
	del  bool
	k, v Term
}

var dbMapType = types.NewMap(types.Typ[types.String], types.NewSlice(types.Typ[types.Byte]))

func (in *Interp) dbCell(d Term) *Cell {
	if in.dbCells == nil {
		in.dbCells = map[string]*Cell{}
	}
	if c, ok := in.dbCells[d.S]; ok {
		return c
	}
	c := in.newCell("db("+trunc(d.S, 24)+")", CMap, dbMapType)
	in.dbCells[d.S] = c
	return c
}

func (in *Interp) dbHealthy(d Term) Term {
	in.D.declareSort("Iface")
	in.D.declareFun("dbhealthy", []string{"Iface"}, SBool)
	return App("dbhealthy", SBool, d)
}

func dbTermOf(v Val, f *Frame, pos ast.Node) Term {
	if sc, ok := v.(Sc); ok && sc.T.Sort == "Iface" {
		return sc.T
	}
	if p, ok := v.(PtrV); ok {
		// a concrete database object behind a pointer (*pebble.Database): identified by its reference
		f.in.D.declareSort("Iface")
		f.in.D.declareFun("box_Ref", []string{SRef}, "Iface")
		return App("box_Ref", "Iface", f.in.refOf(p))
	}
	if sc, ok := v.(Sc); ok && strings.HasPrefix(sc.T.Sort, "O_") {
		// a concrete database type declared opaque (internal/pebble.Database): boxed like an interface value
		f.in.D.declareSort("Iface")
		fn := "box_" + sanitize(sc.T.Sort)
		f.in.D.declareFun(fn, []string{sc.T.Sort}, "Iface")
		return App(fn, "Iface", sc.T)
	}
	f.in.unsupported(pos.Pos(), "database receiver is %T (expected an interface value)", v)
	return Term{}
}

func (f *Frame) dbGet(d Term, key Val, st *State) (Val, Term) {
	in := f.in
	c := in.dbCell(d)
	mc := in.load(st, c, f).(MapC)
	k := f.strOfSlice(key, st)
	has := Select(mc.Has, k)
	e := in.D.fresh("dberr", SErr)
	nf := in.errSentinel("github.com/ava-labs/avalanchego/database.ErrNotFound")
	healthy := in.dbHealthy(d)
	st.assume(Implies(healthy, Ite(has, Eq(e, in.errNil()), Eq(e, nf))))
	st.assume(Implies(Eq(e, in.errNil()), has))
	// ErrNotFound is reported only for a key that is absent
	st.assume(Implies(Or(Eq(e, nf), App("err_wraps", SBool, e, nf)), Not(has)))
	val := in.thawFresh(Select(mc.Val, k), st).(SliceV)
	// on error the returned slice is nil/empty
	res := in.D.fresh("dbval_len", SInt)
	st.assume(Ite(Eq(e, in.errNil()), Eq(res, val.Len), Eq(res, IntLit(0))))
	out := SliceV{Reg: val.Reg, Off: IntLit(0), Len: res, Cap: res, Nil: Not(Eq(e, in.errNil()))}
	if res.S != val.Len.S {
		delete(in.frozenOf, val.Reg)
		// keep the link to the stored string when the read succeeded
		st.assume(Implies(Eq(e, in.errNil()), Eq(App("mkstr", SStr, in.regionContent(st, out.Reg, f), IntLit(0), res), Select(mc.Val, k))))
	}
	return out, e
}

func (f *Frame) dbApply(c *Cell, op batchOp, st *State) {
	in := f.in
	mc := in.load(st, c, f).(MapC)
	if op.del {
		st.store[c] = MapC{Has: f.nameIt(st, "dbhas", Store(mc.Has, op.k, TFalse)), Val: mc.Val,
			Card: f.nameIt(st, "dbcard", Ite(Select(mc.Has, op.k), Sub(mc.Card, IntLit(1)), mc.Card))}
		return
	}
	st.store[c] = MapC{Has: f.nameIt(st, "dbhas", Store(mc.Has, op.k, TTrue)), Val: f.nameIt(st, "dbval", Store(mc.Val, op.k, op.v)),
		Card: f.nameIt(st, "dbcard", Ite(Select(mc.Has, op.k), mc.Card, Add(mc.Card, IntLit(1))))}
}

// writeResult: error term of a write on database d; nil when healthy.
func (f *Frame) dbWriteErr(d Term, st *State) Term {
	in := f.in
	e := in.D.fresh("dbwerr", SErr)
	st.assume(Implies(in.dbHealthy(d), Eq(e, in.errNil())))
	return e
}

func init() {
	const db = "github.com/ava-labs/avalanchego/database."
	get := func(f *Frame, call *ast.CallExpr, recv Val, args []Val, st *State) []Val {
		d := dbTermOf(recv, f, call)
		v, e := f.dbGet(d, args[0], st)
		f.in.note("database.Database modelled as a ghost map (Get/Has/Put/Delete/Batch); dbhealthy(d) = the store does not fail")
		return []Val{v, Sc{e}}
	}
	has := func(f *Frame, call *ast.CallExpr, recv Val, args []Val, st *State) []Val {
		in := f.in
		d := dbTermOf(recv, f, call)
		mc := in.load(st, in.dbCell(d), f).(MapC)
		e := f.dbWriteErr(d, st)
		return []Val{Sc{Select(mc.Has, f.strOfSlice(args[0], st))}, Sc{e}}
	}
	put := func(f *Frame, call *ast.CallExpr, recv Val, args []Val, st *State) []Val {
		if p, ok := recv.(PtrV); ok { // batch
			b := f.in.load(st, p.To, f).(BatchV)
			nb := BatchV{DB: b.DB, D: b.D, Ops: append(append([]batchOp(nil), b.Ops...), batchOp{k: f.strOfSlice(args[0], st), v: f.strOfSlice(args[1], st)})}
			st.store[p.To] = nb
			return []Val{Sc{f.dbWriteErr(b.D, st)}}
		}
		d := dbTermOf(recv, f, call)
		e := f.dbWriteErr(d, st)
		ok := st.clone()
		_ = ok
		// effect happens iff no error: model with ite on the map components
		c := f.in.dbCell(d)
		before := f.in.load(st, c, f).(MapC)
		f.dbApply(c, batchOp{k: f.strOfSlice(args[0], st), v: f.strOfSlice(args[1], st)}, st)
		after := f.in.load(st, c, f).(MapC)
		isOK := Eq(e, f.in.errNil())
		st.store[c] = MapC{Has: Ite(isOK, after.Has, before.Has), Val: Ite(isOK, after.Val, before.Val), Card: Ite(isOK, after.Card, before.Card)}
		return []Val{Sc{e}}
	}
	del := func(f *Frame, call *ast.CallExpr, recv Val, args []Val, st *State) []Val {
		if p, ok := recv.(PtrV); ok {
			b := f.in.load(st, p.To, f).(BatchV)
			nb := BatchV{DB: b.DB, D: b.D, Ops: append(append([]batchOp(nil), b.Ops...), batchOp{del: true, k: f.strOfSlice(args[0], st)})}
			st.store[p.To] = nb
			return []Val{Sc{f.dbWriteErr(b.D, st)}}
		}
		d := dbTermOf(recv, f, call)
		e := f.dbWriteErr(d, st)
		c := f.in.dbCell(d)
		before := f.in.load(st, c, f).(MapC)
		f.dbApply(c, batchOp{del: true, k: f.strOfSlice(args[0], st)}, st)
		after := f.in.load(st, c, f).(MapC)
		isOK := Eq(e, f.in.errNil())
		st.store[c] = MapC{Has: Ite(isOK, after.Has, before.Has), Val: Ite(isOK, after.Val, before.Val), Card: Ite(isOK, after.Card, before.Card)}
		return []Val{Sc{e}}
	}
	for _, recvName := range []string{"KeyValueReader", "Database", "KeyValueReaderWriter", "KeyValueReaderWriterDeleter"} {
		externs[db+recvName+".Get"] = get
		externs[db+recvName+".Has"] = has
	}
	for _, recvName := range []string{"KeyValueWriter", "Database", "Batch", "KeyValueReaderWriter", "KeyValueWriterDeleter", "KeyValueReaderWriterDeleter"} {
		externs[db+recvName+".Put"] = put
	}
	for _, recvName := range []string{"KeyValueDeleter", "Database", "Batch", "KeyValueWriterDeleter", "KeyValueReaderWriterDeleter"} {
		externs[db+recvName+".Delete"] = del
	}
	newBatch := func(f *Frame, call *ast.CallExpr, recv Val, args []Val, st *State) []Val {
		d := dbTermOf(recv, f, call)
		c := f.in.newCell("batch", CVar, nil)
		st.store[c] = BatchV{DB: f.in.dbCell(d), D: d}
		return []Val{PtrV{To: c, Nil: TFalse}}
	}
	// internal/pebble.Database implements database.Database: same model
	const pb = "github.com/ava-labs/hypersdk/internal/pebble.(*Database)."
	externs[pb+"Get"], externs[pb+"Has"], externs[pb+"Put"], externs[pb+"Delete"], externs[pb+"NewBatch"] = get, has, put, del, newBatch
	externs[db+"Batcher.NewBatch"] = newBatch
	externs[db+"Database.NewBatch"] = newBatch
	externs[db+"Batch.Write"] = func(f *Frame, call *ast.CallExpr, recv Val, args []Val, st *State) []Val {
		p := recv.(PtrV)
		b := f.in.load(st, p.To, f).(BatchV)
		e := f.dbWriteErr(b.D, st)
		before := f.in.load(st, b.DB, f).(MapC)
		if b.Base != nil {
			in := f.in
			has2 := in.D.fresh("dbhas", before.Has.Sort)
			val2 := in.D.fresh("dbval", before.Val.Sort)
			card2 := in.D.fresh("dbcard", SInt)
			k := Term{S: "k!bw", Sort: SStr}
			st.assume(Forall([]Term{k}, Eq(Select(has2, k), Ite(Select(b.Base.T, k), Select(b.Base.H, k), Select(before.Has, k))), []Term{Select(has2, k)}))
			st.assume(Forall([]Term{k}, Eq(Select(val2, k), Ite(And(Select(b.Base.T, k), Select(b.Base.H, k)), Select(b.Base.V, k), Select(before.Val, k))), []Term{Select(val2, k)}))
			st.assume(Le(IntLit(0), card2))
			st.store[b.DB] = MapC{Has: has2, Val: val2, Card: card2}
		}
		for _, op := range b.Ops {
			f.dbApply(b.DB, op, st)
		}
		after := f.in.load(st, b.DB, f).(MapC)
		isOK := Eq(e, f.in.errNil())
		// atomic: either the whole write set is applied or nothing
		st.store[b.DB] = MapC{Has: f.nameIt(st, "dbhas", Ite(isOK, after.Has, before.Has)), Val: f.nameIt(st, "dbval", Ite(isOK, after.Val, before.Val)), Card: Ite(isOK, after.Card, before.Card)}
		f.in.note("database.Batch: Put/Delete are collected and applied atomically, in order, by Write")
		return []Val{Sc{e}}
	}
	externs[db+"PackUInt64"] = func(f *Frame, call *ast.CallExpr, recv Val, args []Val, st *State) []Val {
		in := f.in
		reg := in.newCell("packu64", CRegion, types.Typ[types.Uint8])
		in.load(st, reg, f)
		f.writeBE(reg, IntLit(0), args[0].(Sc).T, 8, st)
		return []Val{SliceV{Reg: reg, Off: IntLit(0), Len: IntLit(8), Cap: IntLit(8), Nil: TFalse}}
	}
	externs[db+"ParseUInt64"] = func(f *Frame, call *ast.CallExpr, recv Val, args []Val, st *State) []Val {
		in := f.in
		b := args[0].(SliceV)
		r := in.D.fresh("parseu64", SInt)
		e := in.D.fresh("parseu64_err", SErr)
		arr := in.regionContent(st, b.Reg, f)
		st.assume(Ite(Eq(b.Len, IntLit(8)), And(Eq(e, in.errNil()), Eq(r, be(arr, b.Off, 8))), And(Not(Eq(e, in.errNil())), Eq(r, IntLit(0)))))
		st.assume(inRange(r, types.Typ[types.Uint64]))
		return []Val{Sc{r}, Sc{e}}
	}
	newIter := func(withPrefix bool) externFn {
		return func(f *Frame, call *ast.CallExpr, recv Val, args []Val, st *State) []Val {
			in := f.in
			d := dbTermOf(recv, f, call)
			mc := in.load(st, in.dbCell(d), f).(MapC)
			prefix := in.strLit("")
			if withPrefix {
				prefix = f.strOfSlice(args[0], st)
			}
			c := in.newCell("iter", CVar, nil)
			st.store[c] = IterV{DB0: mc, D: d, Prefix: prefix, Cur: in.D.fresh("itkey", SStr)}
			in.note("database.Iterator modelled as an enumeration of keys that were present with the prefix when it was created (Next: arbitrary such key or exhaustion; order and completeness of the enumeration are NOT modelled)")
			return []Val{PtrV{To: c, Nil: TFalse}}
		}
	}
	for _, recvName := range []string{"Iteratee", "Database"} {
		externs[db+recvName+".NewIteratorWithPrefix"] = newIter(true)
		externs[db+recvName+".NewIterator"] = newIter(false)
	}
	externs[db+"Iterator.Next"] = func(f *Frame, call *ast.CallExpr, recv Val, args []Val, st *State) []Val {
		in := f.in
		p := recv.(PtrV)
		it := in.load(st, p.To, f).(IterV)
		b := in.D.fresh("itnext", SBool)
		cur := in.D.fresh("itkey", SStr)
		st.assume(Implies(b, And(Select(it.DB0.Has, cur), in.hasPrefixUF(cur, it.Prefix))))
		it.Cur = cur
		st.store[p.To] = it
		return []Val{Sc{b}}
	}
	externs[db+"Iterator.Key"] = func(f *Frame, call *ast.CallExpr, recv Val, args []Val, st *State) []Val {
		in := f.in
		it := in.load(st, recv.(PtrV).To, f).(IterV)
		return []Val{in.thawFresh(it.Cur, st)}
	}
	externs[db+"Iterator.Value"] = func(f *Frame, call *ast.CallExpr, recv Val, args []Val, st *State) []Val {
		in := f.in
		it := in.load(st, recv.(PtrV).To, f).(IterV)
		return []Val{in.thawFresh(Select(it.DB0.Val, it.Cur), st)}
	}
	externs[db+"Iterator.Error"] = func(f *Frame, call *ast.CallExpr, recv Val, args []Val, st *State) []Val {
		it := f.in.load(st, recv.(PtrV).To, f).(IterV)
		return []Val{Sc{f.dbWriteErr(it.D, st)}}
	}
	externs[db+"Iterator.Release"] = func(f *Frame, call *ast.CallExpr, recv Val, args []Val, st *State) []Val {
		return nil
	}
	// set.Bits (a shared big.Int bit set) declared opaque: membership predicate with functional updates
	bitsSort := func(f *Frame) string {
		for k := range f.in.W.opaqueTypes {
			if strings.HasSuffix(k, "avalanchego/utils/set.Bits") {
				return "O_" + sanitize(k)
			}
		}
		return ""
	}
	externs["github.com/ava-labs/avalanchego/utils/set.NewBits"] = func(f *Frame, call *ast.CallExpr, recv Val, args []Val, st *State) []Val {
		in := f.in
		bs := bitsSort(f)
		if bs == "" || len(args) != 0 && !(len(args) == 1 && isEmptySlice(args[0])) {
			in.unsupported(call.Pos(), "set.NewBits: needs `type github.com/ava-labs/avalanchego/utils/set.Bits opaque` and no initial bits")
		}
		in.D.declareSort(bs)
		in.D.declareFun("bits_contains", []string{bs, SInt}, SBool)
		in.D.declareFun("bits_len", []string{bs}, SInt)
		b := in.D.fresh("bits", bs)
		j := Term{S: "j", Sort: SInt}
		st.assume(Forall([]Term{j}, Not(App("bits_contains", SBool, b, j)), []Term{App("bits_contains", SBool, b, j)}))
		st.assume(Eq(App("bits_len", SInt, b), IntLit(0)))
		in.note("set.Bits modelled as a membership predicate with functional updates (opaque)")
		return []Val{Sc{b}}
	}
	externs["github.com/ava-labs/avalanchego/utils/set.(Bits).Add"] = func(f *Frame, call *ast.CallExpr, recv Val, args []Val, st *State) []Val {
		in := f.in
		r, ok := recv.(Sc)
		sel, isSel := ast.Unparen(call.Fun).(*ast.SelectorExpr)
		if !ok || !isSel {
			in.unsupported(call.Pos(), "set.Bits.Add on %T", recv)
		}
		id, isId := ast.Unparen(sel.X).(*ast.Ident)
		if !isId {
			in.unsupported(call.Pos(), "set.Bits.Add: receiver must be a variable (the bit set is shared by reference; the variable is rebound to the updated set)")
		}
		in.D.declareFun("bits_contains", []string{r.T.Sort, SInt}, SBool)
		in.D.declareFun("bits_len", []string{r.T.Sort}, SInt)
		nb := in.D.fresh("bits", r.T.Sort)
		i := args[0].(Sc).T
		j := Term{S: "j", Sort: SInt}
		st.assume(Forall([]Term{j}, Eq(App("bits_contains", SBool, nb, j), Or(Eq(j, i), App("bits_contains", SBool, r.T, j))), []Term{App("bits_contains", SBool, nb, j)}))
		st.assume(Lt(IntLit(0), App("bits_len", SInt, nb)))
		f.assign(id, Sc{nb}, st)
		in.note("set.Bits.Add: aliases of the bit set held in OTHER variables are not updated (assumption: none observed afterwards)")
		return nil
	}
	externs["github.com/ava-labs/avalanchego/utils/set.(Bits).Len"] = func(f *Frame, call *ast.CallExpr, recv Val, args []Val, st *State) []Val {
		r := recv.(Sc)
		f.in.D.declareFun("bits_len", []string{r.T.Sort}, SInt)
		return []Val{Sc{App("bits_len", SInt, r.T)}}
	}
	externs["github.com/ava-labs/avalanchego/utils/set.(Bits).BitLen"] = externs["github.com/ava-labs/avalanchego/utils/set.(Bits).Len"]
	externs["github.com/ava-labs/avalanchego/utils/set.NewSet"] = func(f *Frame, call *ast.CallExpr, recv Val, args []Val, st *State) []Val {
		// an empty set.Set[T] (map[T]struct{})
		t := f.resolve(f.pkg.TypesInfo.Types[call].Type)
		in := f.in
		c := in.newCell("set", CMap, t)
		ks := in.sortOf(t.Underlying().(*types.Map).Key())
		vs := in.sortOf(t.Underlying().(*types.Map).Elem())
		st.store[c] = MapC{Has: Term{S: fmt.Sprintf("((as const (Array %s Bool)) false)", ks), Sort: MapSortOf(ks, SBool)}, Val: in.D.fresh("setval", MapSortOf(ks, vs)), Card: IntLit(0)}
		return []Val{MapV{M: c, Nil: TFalse}}
	}
	externs["github.com/ava-labs/avalanchego/utils/set.(Bits).Contains"] = func(f *Frame, call *ast.CallExpr, recv Val, args []Val, st *State) []Val {
		r, ok := recv.(Sc)
		if !ok {
			f.in.unsupported(call.Pos(), "set.Bits must be declared opaque (type github.com/ava-labs/avalanchego/utils/set.Bits opaque)")
		}
		f.in.D.declareFun("bits_contains", []string{r.T.Sort, SInt}, SBool)
		f.in.note("set.Bits.Contains: uninterpreted membership predicate of (bit set, index)")
		return []Val{Sc{App("bits_contains", SBool, r.T, args[0].(Sc).T)}}
	}
	externs["github.com/ava-labs/avalanchego/codec.Codec.MarshalInto"] = func(f *Frame, call *ast.CallExpr, recv Val, args []Val, st *State) []Val {
		// serialisation into a packer: the packer's content becomes arbitrary, the value is not modified
		if p, ok := args[1].(PtrV); ok {
			f.in.havocCell(st, p.To, f)
		}
		f.in.note("codec.Codec.MarshalInto: packer content havoc'd, arbitrary error (serialised bytes not modelled)")
		return []Val{Sc{f.in.D.fresh("marshalerr", SErr)}}
	}
	// canoto varint size: 1 for 0, else ceil(bitlen/7)
	sizeUint := func(v Term) Term {
		r := IntLit(10)
		for k := 9; k >= 1; k-- {
			r = Ite(Lt(v, BigLit(pow2(uint(7*k)))), IntLit(int64(k)), r)
		}
		return r
	}
	// canoto.Append / AppendBytes on a *canoto.Writer: w.B grows by len(v) / by the length varint of v
	// plus len(v); what was written before stays (the appended bytes themselves are not modelled)
	growWriter := func(withLen bool) externFn {
		return func(f *Frame, call *ast.CallExpr, recv Val, args []Val, st *State) []Val {
			in := f.in
			p, ok := args[0].(PtrV)
			if !ok {
				in.unsupported(call.Pos(), "canoto writer argument %T", args[0])
			}
			sv := in.load(st, p.To, f).(StructV)
			bi := -1
			for i := 0; i < sv.Typ.NumFields(); i++ {
				if sv.Typ.Field(i).Name() == "B" {
					bi = i
				}
			}
			if bi < 0 {
				in.unsupported(call.Pos(), "canoto.Writer without field B")
			}
			old := sv.F[bi].(SliceV)
			var ln Term
			switch v := args[1].(type) {
			case SliceV:
				ln = v.Len
			case Sc:
				ln = App("slen", SInt, v.T)
			default:
				in.unsupported(call.Pos(), "canoto append of %T", args[1])
			}
			delta := ln
			if withLen {
				delta = Add(sizeUint(ln), ln)
			}
			reg := in.newCell("wbuf", CRegion, types.Typ[types.Uint8])
			na := in.D.fresh("wbuf", ArrSort(SInt))
			in.arrayRangeAxiomSt(na, types.Typ[types.Uint8], st)
			oc := in.regionContent(st, old.Reg, f)
			j := Term{S: "j", Sort: SInt}
			st.assume(Forall([]Term{j}, Implies(And(Le(IntLit(0), j), Lt(j, old.Len)), Eq(Select(na, j), Select(oc, Add(old.Off, j)))), []Term{Select(na, j)}))
			st.store[reg] = ArrV{T: na}
			nl := f.nameIt(st, "wlen", Add(old.Len, delta))
			nf := append([]Val(nil), sv.F...)
			nf[bi] = SliceV{Reg: reg, Off: IntLit(0), Len: nl, Cap: nl, Nil: TFalse}
			st.store[p.To] = StructV{Typ: sv.Typ, F: nf}
			in.note("canoto.Append/AppendBytes: the writer grows by exactly the encoded size; earlier bytes are kept; the appended bytes are not modelled")
			return nil
		}
	}
	externs["github.com/StephenButtolph/canoto.Append"] = growWriter(false)
	externs["github.com/StephenButtolph/canoto.AppendBytes"] = growWriter(true)
	externs["github.com/StephenButtolph/canoto.SizeUint"] = func(f *Frame, call *ast.CallExpr, recv Val, args []Val, st *State) []Val {
		f.in.note("canoto.SizeUint modelled exactly (varint length)")
		return []Val{Sc{sizeUint(args[0].(Sc).T)}}
	}
	externs["github.com/StephenButtolph/canoto.SizeBytes"] = func(f *Frame, call *ast.CallExpr, recv Val, args []Val, st *State) []Val {
		var ln Term
		switch v := args[0].(type) {
		case SliceV:
			ln = v.Len
		case Sc:
			ln = App("slen", SInt, v.T)
		default:
			f.in.unsupported(call.Pos(), "canoto.SizeBytes of %T", args[0])
		}
		f.in.note("canoto.SizeBytes modelled exactly (varint length of len + len)")
		return []Val{Sc{Add(sizeUint(ln), ln)}}
	}
	// avalanchego set.Set[T] is map[T]struct{}: Add / Contains / Len on the map model
	setMap := func(f *Frame, recv Val, st *State) (MapV, bool) {
		if p, ok := recv.(PtrV); ok {
			recv = f.in.load(st, p.To, f)
		}
		m, ok := recv.(MapV)
		return m, ok
	}
	externs["github.com/ava-labs/avalanchego/utils/set.(*Set).Add"] = func(f *Frame, call *ast.CallExpr, recv Val, args []Val, st *State) []Val {
		m, ok := setMap(f, recv, st)
		if !ok {
			f.in.unsupported(call.Pos(), "set.Set receiver %T", recv)
		}
		mt := m.M.Typ
		if len(call.Args) != 1 || call.Ellipsis.IsValid() {
			f.in.unsupported(call.Pos(), "set.Set.Add with other than one element")
		}
		elem := f.evalAssignable(call.Args[0], mt.Underlying().(*types.Map).Key(), st)
		f.mapStore(m, mt, elem, f.in.zeroVal(mt.Underlying().(*types.Map).Elem(), f), st)
		f.in.note("set.Set.Add/Contains modelled on the map model (set.Set[T] is map[T]struct{})")
		return nil
	}
	externs["github.com/ava-labs/avalanchego/utils/set.(*Set).Contains"] = func(f *Frame, call *ast.CallExpr, recv Val, args []Val, st *State) []Val {
		return externs["github.com/ava-labs/avalanchego/utils/set.(Set).Contains"](f, call, recv, args, st)
	}
	externs["github.com/ava-labs/avalanchego/utils/set.(Set).Contains"] = func(f *Frame, call *ast.CallExpr, recv Val, args []Val, st *State) []Val {
		m, ok := setMap(f, recv, st)
		if !ok {
			f.in.unsupported(call.Pos(), "set.Set receiver %T", recv)
		}
		mt := m.M.Typ.Underlying().(*types.Map)
		mc := f.in.load(st, m.M, f).(MapC)
		return []Val{Sc{Select(mc.Has, f.in.freeze(args[0], mt.Key(), st, f))}}
	}
	externs["time.(Duration).Nanoseconds"] = func(f *Frame, call *ast.CallExpr, recv Val, args []Val, st *State) []Val {
		return []Val{recv}
	}
	externs["github.com/ava-labs/avalanchego/utils.Zero"] = func(f *Frame, call *ast.CallExpr, recv Val, args []Val, st *State) []Val {
		return []Val{f.in.zeroVal(resultType0(f, call), f)}
	}
	externs["errors.Join"] = func(f *Frame, call *ast.CallExpr, recv Val, args []Val, st *State) []Val {
		in := f.in
		sl := args[0].(SliceV)
		if !sl.Len.IsLit() {
			in.unsupported(call.Pos(), "errors.Join with a non-literal argument list")
		}
		content := in.regionContent(st, sl.Reg, f)
		e := in.D.fresh("joined", SErr)
		var allNil []Term
		for i := int64(0); i < sl.Len.lit.Int64(); i++ {
			ei := Select(content, Add(sl.Off, IntLit(i)))
			allNil = append(allNil, Eq(ei, in.errNil()))
			st.assume(Implies(Not(Eq(ei, in.errNil())), Or(Eq(e, ei), App("err_wraps", SBool, e, ei))))
		}
		st.assume(Eq(Eq(e, in.errNil()), And(allNil...)))
		return []Val{Sc{e}}
	}
}

func isEmptySlice(v Val) bool {
	sl, ok := v.(SliceV)
	return ok && sl.Len.IsLit() && sl.Len.lit.Sign() == 0
}
