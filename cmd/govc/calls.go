package main

import (
	"fmt"
	"go/ast"
	"go/token"
	"go/types"
	"strings"
)

// calleeKey computes the canonical name of a called function/method.
func funcKey(fn *types.Func) string {
	fn = fn.Origin()
	sig := fn.Type().(*types.Signature)
	pkg := ""
	if fn.Pkg() != nil {
		pkg = fn.Pkg().Path()
	}
	if r := sig.Recv(); r != nil {
		t := r.Type()
		ptr := ""
		if p, ok := t.(*types.Pointer); ok {
			t = p.Elem()
			ptr = "*"
		}
		name := ""
		switch n := types.Unalias(t).(type) {
		case *types.Named:
			name = n.Obj().Name()
			if n.Obj().Pkg() != nil {
				pkg = n.Obj().Pkg().Path()
			}
		default:
			name = t.String()
		}
		if _, isIface := t.Underlying().(*types.Interface); isIface {
			return pkg + "." + name + "." + fn.Name()
		}
		return pkg + ".(" + ptr + name + ")." + fn.Name()
	}
	return pkg + "." + fn.Name()
}

var droppedPrefixes = []string{
	"sync.(*Mutex).", "sync.(*RWMutex).", "sync.(*WaitGroup).",
	"go.uber.org/zap.", "github.com/ava-labs/avalanchego/utils/logging.",
	"go.opentelemetry.io/otel/trace.Span.", "github.com/ava-labs/avalanchego/trace.Tracer.", "go.opentelemetry.io/otel/trace.Tracer.",
	"github.com/prometheus/client_golang/prometheus.",
	"go.opentelemetry.io/otel/attribute.",
	"github.com/ava-labs/avalanchego/utils/timer.(*Timer).",
	"time.Now", "time.Since", "time.(Time).", "time.Date",
	"fmt.Println", "fmt.Printf",
}

func isDroppedKey(key string) bool {
	for _, p := range droppedPrefixes {
		if strings.HasPrefix(key, p) {
			return true
		}
	}
	return false
}

func (f *Frame) calleeOf(call *ast.CallExpr) *types.Func {
	var id *ast.Ident
	switch fn := ast.Unparen(call.Fun).(type) {
	case *ast.Ident:
		id = fn
	case *ast.SelectorExpr:
		id = fn.Sel
	case *ast.IndexExpr:
		switch g := fn.X.(type) {
		case *ast.Ident:
			id = g
		case *ast.SelectorExpr:
			id = g.Sel
		}
	case *ast.IndexListExpr:
		switch g := fn.X.(type) {
		case *ast.Ident:
			id = g
		case *ast.SelectorExpr:
			id = g.Sel
		}
	}
	if id == nil {
		return nil
	}
	fn, _ := f.pkg.TypesInfo.ObjectOf(id).(*types.Func)
	return fn
}

func (f *Frame) isDroppedCall(call *ast.CallExpr) bool {
	fn := f.calleeOf(call)
	if fn == nil {
		return false
	}
	return isDroppedKey(funcKey(fn))
}

// evalCall evaluates a call in expression position (must not fork).
func (f *Frame) evalCall(call *ast.CallExpr, st *State) []Val {
	var res []Val
	n := 0
	outs := f.execCallStmt(call, st, func(s2 *State, vs []Val) {
		n++
		if s2 != st {
			// adopt the resulting state in place
			*st = *s2
		}
		res = vs
	})
	_ = outs
	if n != 1 {
		f.in.unsupported(call.Pos(), "nested call produced %d paths; give the callee a contract", n)
	}
	return res
}

// execCallStmt executes a call; k is invoked for every resulting state with the results.
func (f *Frame) execCallStmt(call *ast.CallExpr, st *State, k func(*State, []Val)) []Outcome {
	in := f.in
	info := f.pkg.TypesInfo
	staticOrd := f.staticCallOrd(call)
	done := func(st *State, vs []Val) []Outcome {
		k(st, vs)
		f.runAsserts(staticOrd, st, call)
		return normal(st)
	}
	// conversion T(x)
	if tv, ok := info.Types[call.Fun]; ok && tv.IsType() {
		return done(st, []Val{f.evalConversion(call, f.resolve(tv.Type), st)})
	}
	// builtins
	if id, ok := ast.Unparen(call.Fun).(*ast.Ident); ok {
		if b, ok := info.ObjectOf(id).(*types.Builtin); ok {
			return done(st, f.evalBuiltin(b.Name(), call, st))
		}
	}
	fn := f.calleeOf(call)
	if fn != nil {
		if h, ok := externsRaw[funcKey(fn)]; ok {
			in.note("extern (trusted): " + funcKey(fn))
			return done(st, h(f, call, st))
		}
	}
	if fn == nil {
		// call of a function value (closure variable)
		if id, ok := ast.Unparen(call.Fun).(*ast.Ident); ok {
			if lit := f.closureOf(id); lit != nil {
				return f.callClosure(lit, call, st, k)
			}
		}
		in.unsupported(call.Pos(), "call through function value")
	}
	key := funcKey(fn)
	if isDroppedKey(key) {
		in.note("dropped call (effect-free on tracked state): " + key)
		sig := fn.Type().(*types.Signature)
		var vs []Val
		for i := 0; i < sig.Results().Len(); i++ {
			vs = append(vs, in.freshVal("dropped", sig.Results().At(i).Type(), f))
		}
		return done(st, vs)
	}
	// receiver and arguments
	var recv Val
	var recvT types.Type
	if sel, ok := ast.Unparen(call.Fun).(*ast.SelectorExpr); ok {
		if s, ok := info.Selections[sel]; ok && (s.Kind() == types.MethodVal) {
			recvT = f.typeOf(sel.X)
			base := f.evalExpr(sel.X, st)
			// follow embedded-field path to the actual receiver
			path := s.Index()
			if len(path) > 1 {
				base = f.fieldPath(base, path[:len(path)-1], st, sel.Pos())
				recvT = nil
			}
			recv = base
			// implicit address-of for pointer-receiver methods called on an addressable variable
			if rsig := fn.Type().(*types.Signature); rsig.Recv() != nil {
				if _, wantPtr := rsig.Recv().Type().(*types.Pointer); wantPtr {
					if _, isPtr := recv.(PtrV); !isPtr && len(path) == 1 {
						if id, ok := ast.Unparen(sel.X).(*ast.Ident); ok {
							if c := f.cellOf(info.ObjectOf(id)); c != nil {
								recv = PtrV{To: c, Nil: TFalse}
							}
						}
					}
				}
			}
		}
	}
	// a method promoted from an embedded interface, called through a named interface that has its
	// own contract for it (state.Mutable.GetValue vs state.Immutable.GetValue): the static receiver
	// type's contract wins
	if recvT != nil {
		if named, ok := types.Unalias(recvT).(*types.Named); ok && named.Obj().Pkg() != nil {
			if _, isIface := named.Underlying().(*types.Interface); isIface {
				alt := named.Obj().Pkg().Path() + "." + named.Obj().Name() + "." + fn.Name()
				if alt != key && in.W.contractFor(alt) != nil {
					key = alt
				}
			}
		}
	}
	alt, ok := contractAlias[key]
	if !ok {
		// scoped form: "<caller package path prefix>|<callee key>"
		for k, v := range contractAlias {
			if i := strings.Index(k, "|"); i >= 0 && k[i+1:] == key && strings.HasPrefix(f.pkg.PkgPath, k[:i]) {
				alt, ok = v, true
			}
		}
	}
	if ok && in.W.contractFor(alt) != nil {
		in.note("calls to " + key + " use the contract of " + alt + " (property configuration)")
		key = alt
	}
	sig := fn.Type().(*types.Signature)
	args := f.evalArgs(call, sig, st)
	f.callN++
	callOrd := staticOrd
	if callOrd == 0 {
		callOrd = 1000 + f.callN
	}

	// interface method call -> interface contract
	if recvT != nil {
		if _, isIface := recvT.Underlying().(*types.Interface); isIface {
			if _, isTP := recvT.(*types.TypeParam); !isTP {
				// keep key as computed from the interface's method object
			}
		}
	}
	// 1. extern (trusted, native) model
	if h, ok := externs[key]; ok {
		in.note("extern (trusted): " + key)
		vs := h(f, call, recv, args, st)
		return done(st, vs)
	}
	// 2. contract
	if c := in.W.contractFor(key); c != nil && !(f.depth == 0 && false) {
		if c.Pure {
			return done(st, f.pureApply(c, fn, recv, args, st))
		}
		if !c.Inline {
			vs := f.applyContract(c, fn, recv, args, st, call, callOrd)
			return done(st, vs)
		}
	}
	// 3. inline
	if fd, pk := in.W.funcDecl(key); fd != nil && fd.Body != nil {
		if f.depth >= 3 {
			in.unsupported(call.Pos(), "inline depth exceeded at %s", key)
		}
		in.note("inlined (no contract): " + key)
		return f.inlineCall(fd, pk, fn, key, recv, args, st, call, k)
	}
	// 4. unknown: uninterpreted result for pure-looking getters on opaque values
	if in.W.isPureExtern(key) {
		return done(st, f.pureExternCall(key, fn, recv, recvT, args, st))
	}
	in.unsupported(call.Pos(), "call to %s: no contract, extern model or body", key)
	return nil
}

func (f *Frame) evalArgs(call *ast.CallExpr, sig *types.Signature, st *State) []Val {
	in := f.in
	params := sig.Params()
	var args []Val
	if call.Ellipsis.IsValid() {
		for i, a := range call.Args {
			args = append(args, f.evalAssignable(a, params.At(i).Type(), st))
		}
		return args
	}
	if len(call.Args) == 1 && params.Len() > 1 {
		// f(g()) with multi-value g
		if tv, ok := f.evalExpr(call.Args[0], st).(TupleV); ok {
			return tv.Vs
		}
	}
	for i, a := range call.Args {
		var pt types.Type
		if sig.Variadic() && i >= params.Len()-1 {
			pt = params.At(params.Len() - 1).Type().(*types.Slice).Elem()
		} else {
			pt = params.At(i).Type()
		}
		args = append(args, f.evalAssignable(a, pt, st))
	}
	if sig.Variadic() {
		nfixed := params.Len() - 1
		elemT := params.At(nfixed).Type().(*types.Slice).Elem()
		extra := args[nfixed:]
		reg := in.newCell("variadic", CRegion, elemT)
		cur := in.D.fresh("variadic", ArrSort(in.sortOf(elemT)))
		for i, v := range extra {
			cur = Store(cur, IntLit(int64(i)), in.freeze(v, elemT, st, f))
		}
		st.store[reg] = ArrV{T: cur}
		n := IntLit(int64(len(extra)))
		args = append(args[:nfixed:nfixed], SliceV{Reg: reg, Off: IntLit(0), Len: n, Cap: n, Nil: BoolLit(len(extra) == 0)})
	}
	return args
}

func (f *Frame) evalConversion(call *ast.CallExpr, to types.Type, st *State) Val {
	in := f.in
	if len(call.Args) != 1 {
		in.unsupported(call.Pos(), "conversion arity")
	}
	arg := call.Args[0]
	if f.isNilExpr(arg) {
		return in.zeroVal(to, f)
	}
	from := f.typeOf(arg)
	v := f.evalExpr(arg, st)
	_, _, toInt := intInfo(to)
	_, _, fromInt := intInfo(from)
	switch {
	case toInt && fromInt:
		return Sc{f.nameIt(st, "conv", f.wrap(v.(Sc).T, to))}
	case isString(to) && isByteSlice(from):
		sl := v.(SliceV)
		return Sc{in.mkStr(sl, st, f)}
	case isByteSlice(to) && isString(from):
		return in.thawFresh(v.(Sc).T, st)
	case isString(to) && isString(from):
		return v
	}
	// array <- slice conversion:  window.Window(slice), Address(a)
	if at, ok := to.Underlying().(*types.Array); ok {
		if sl, ok := v.(SliceV); ok {
			f.safe(st, "slice2arr", call.Pos(), Ge(sl.Len, IntLit(at.Len())))
			content := in.regionContent(st, sl.Reg, f)
			if sl.Off.IsLit() && sl.Off.lit.Sign() == 0 {
				return ArrV{T: content, N: at.Len()}
			}
			if in.sortOf(at.Elem()) == SInt {
				// the array value is the slice content shifted to index 0 (indices >= len are junk in both)
				return ArrV{T: App("ashift", ArrSort(SInt), content, sl.Off), N: at.Len()}
			}
			res := in.D.fresh("arrconv", ArrSort(in.sortOf(at.Elem())))
			if at.Len() <= 96 {
				for i := int64(0); i < at.Len(); i++ {
					st.assume(Eq(Select(res, IntLit(i)), Select(content, Add(sl.Off, IntLit(i)))))
				}
			} else {
				j := Term{S: "j", Sort: SInt}
				st.assume(Forall([]Term{j}, Eq(Select(res, j), Select(content, Add(sl.Off, j))), []Term{Select(res, j)}))
			}
			return ArrV{T: res, N: at.Len()}
		}
		if a, ok := v.(ArrV); ok {
			return a
		}
	}
	// same underlying structure (named <-> named / unnamed)
	if types.IdenticalIgnoreTags(to.Underlying(), from.Underlying()) {
		return v
	}
	if _, ok := to.Underlying().(*types.Interface); ok {
		return f.convertAssign(v, from, to, st, call.Pos())
	}
	in.unsupported(call.Pos(), "conversion %s -> %s", from, to)
	return nil
}

// thawFresh gives a private mutable copy of a Str as []byte.
func (in *Interp) thawFresh(s Term, st *State) Val {
	reg := in.newCell("bytes", CRegion, types.Typ[types.Uint8])
	in.frozenOf[reg] = s
	st.store[reg] = ArrV{T: App("sarr", ArrSort(SInt), s)}
	ln := App("slen", SInt, s)
	return SliceV{Reg: reg, Off: IntLit(0), Len: ln, Cap: ln, Nil: TFalse}
}

func (f *Frame) evalBuiltin(name string, call *ast.CallExpr, st *State) []Val {
	in := f.in
	switch name {
	case "len", "cap":
		v := f.evalExpr(call.Args[0], st)
		if p, ok := v.(PtrV); ok {
			v = in.load(st, p.To, f)
		}
		switch b := v.(type) {
		case SliceV:
			if name == "cap" {
				return []Val{Sc{b.Cap}}
			}
			return []Val{Sc{b.Len}}
		case ArrV:
			return []Val{Sc{IntLit(b.N)}}
		case Sc:
			if b.T.Sort == SStr {
				return []Val{Sc{App("slen", SInt, b.T)}}
			}
		case MapV:
			return []Val{Sc{in.load(st, b.M, f).(MapC).Card}}
		}
		in.unsupported(call.Pos(), "%s of %T", name, v)
	case "min", "max":
		cur := f.evalExpr(call.Args[0], st).(Sc).T
		for _, a := range call.Args[1:] {
			n := f.evalExpr(a, st).(Sc).T
			if name == "min" {
				cur = Min(cur, n)
			} else {
				cur = Max(cur, n)
			}
		}
		return []Val{Sc{cur}}
	case "make":
		t := f.typeOf(call.Args[0])
		switch u := t.Underlying().(type) {
		case *types.Slice:
			ln := f.evalExpr(call.Args[1], st).(Sc).T
			cp := ln
			if len(call.Args) > 2 {
				cp = f.evalExpr(call.Args[2], st).(Sc).T
			}
			f.safe(st, "makelen", call.Pos(), And(Le(IntLit(0), ln), Le(ln, cp)))
			reg := in.newCell("make", CRegion, u.Elem())
			es := in.sortOf(u.Elem())
			z := in.zeroTerm(u.Elem(), f)
			st.store[reg] = ArrV{T: in.constArray(es, z)}
			return []Val{SliceV{Reg: reg, Off: IntLit(0), Len: ln, Cap: cp, Nil: TFalse}}
		case *types.Map:
			c := in.newCell("make{}", CMap, t)
			ks, vs := in.sortOf(u.Key()), in.sortOf(u.Elem())
			val := in.D.fresh("mk_val", MapSortOf(ks, vs))
			in.mapValRangeAxiom(val, u.Elem())
			st.store[c] = MapC{Has: Term{S: fmt.Sprintf("((as const (Array %s Bool)) false)", ks), Sort: MapSortOf(ks, SBool)}, Val: val, Card: IntLit(0)}
			return []Val{MapV{M: c, Nil: TFalse}}
		}
		in.unsupported(call.Pos(), "make of %s", t)
	case "new":
		t := f.typeOf(call.Args[0])
		c := in.newCell("new", CVar, t)
		st.store[c] = in.zeroVal(t, f)
		return []Val{PtrV{To: c, Nil: TFalse}}
	case "append":
		return []Val{f.evalAppend(call, st)}
	case "copy":
		dst := f.evalExpr(call.Args[0], st).(SliceV)
		var sarr, soff, slen Term
		switch s := f.evalExpr(call.Args[1], st).(type) {
		case SliceV:
			sarr, soff, slen = in.regionContent(st, s.Reg, f), s.Off, s.Len
		case Sc:
			sarr, soff, slen = App("sarr", ArrSort(SInt), s.T), IntLit(0), App("slen", SInt, s.T)
		}
		n := f.nameIt(st, "ncopy", Min(dst.Len, slen))
		f.regionCopy(dst.Reg, dst.Off, sarr, soff, n, st)
		return []Val{Sc{n}}
	case "delete":
		m := f.evalExpr(call.Args[0], st).(MapV)
		mt := f.typeOf(call.Args[0]).Underlying().(*types.Map)
		mc := in.load(st, m.M, f).(MapC)
		k := in.freeze(f.evalAssignable(call.Args[1], mt.Key(), st), mt.Key(), st, f)
		st.store[m.M] = MapC{
			Has:  f.nameIt(st, "mhas", Store(mc.Has, k, TFalse)),
			Val:  mc.Val,
			Card: f.nameIt(st, "mcard", Ite(Select(mc.Has, k), Sub(mc.Card, IntLit(1)), mc.Card)),
		}
		return nil
	case "panic":
		// reaching a panic is a safety violation
		f.safe(st, "panic", call.Pos(), TFalse)
		return nil
	case "close":
		in.note("close(channel): channels are not modelled")
		return nil
	case "clear":
		in.unsupported(call.Pos(), "clear")
	}
	in.unsupported(call.Pos(), "builtin %s", name)
	return nil
}

// regionCopy: dst[doff .. doff+n) = src[soff .. soff+n), everything else unchanged.
func (f *Frame) regionCopy(reg *Cell, doff Term, sarr, soff, n Term, st *State) {
	in := f.in
	old := in.load(st, reg, f).(ArrV)
	if n.IsLit() && n.lit.IsInt64() && n.lit.Int64() <= 16 {
		cur := old.T
		for i := int64(0); i < n.lit.Int64(); i++ {
			cur = Store(cur, Add(doff, IntLit(i)), Select(sarr, Add(soff, IntLit(i))))
		}
		st.store[reg] = ArrV{T: f.nameIt(st, "cpy", cur), N: old.N}
		return
	}
	na := in.D.fresh("cpy", old.T.Sort)
	j := Term{S: "j", Sort: SInt}
	inside := And(Le(doff, j), Lt(j, Add(doff, n)))
	st.assume(Forall([]Term{j}, Eq(Select(na, j), Ite(inside, Select(sarr, Add(soff, Sub(j, doff))), Select(old.T, j))), []Term{Select(na, j)}))
	st.store[reg] = ArrV{T: na, N: old.N}
}

func (f *Frame) evalAppend(call *ast.CallExpr, st *State) Val {
	in := f.in
	t := f.typeOf(call.Args[0])
	elemT := t.Underlying().(*types.Slice).Elem()
	var base SliceV
	if f.isNilExpr(call.Args[0]) {
		base = in.zeroVal(t, f).(SliceV)
	} else {
		base = f.evalExpr(call.Args[0], st).(SliceV)
	}
	if len(call.Args) == 1 {
		return base
	}
	content := in.regionContent(st, base.Reg, f)
	// The result is modelled as a fresh region holding old content ++ new elements.
	// (Whether the backing array is shared is unobservable as long as the old
	// slice is not written afterwards; noted as an assumption.)
	in.note("append result modelled as a fresh backing array (no aliasing with the argument observed)")
	reg := in.newCell("append", CRegion, elemT)
	es := in.sortOf(elemT)
	if call.Ellipsis.IsValid() {
		var sarr, soff, slen Term
		switch s := f.evalExpr(call.Args[1], st).(type) {
		case SliceV:
			sarr, soff, slen = in.regionContent(st, s.Reg, f), s.Off, s.Len
		case Sc:
			sarr, soff, slen = App("sarr", ArrSort(SInt), s.T), IntLit(0), App("slen", SInt, s.T)
		}
		na := in.D.fresh("app", ArrSort(es))
		j := Term{S: "j", Sort: SInt}
		st.assume(Forall([]Term{j}, Eq(Select(na, j),
			Ite(Lt(j, base.Len), Select(content, Add(base.Off, j)), Select(sarr, Add(soff, Sub(j, base.Len))))), []Term{Select(na, j)}))
		st.store[reg] = ArrV{T: na}
		nl := f.nameIt(st, "applen", Add(base.Len, slen))
		cp := in.D.fresh("appcap", SInt)
		st.assume(And(Le(nl, cp), Le(cp, IntLit(maxSliceLen))))
		return SliceV{Reg: reg, Off: IntLit(0), Len: nl, Cap: cp, Nil: And(base.Nil, Eq(slen, IntLit(0)))}
	}
	var cur Term
	if base.Off.IsLit() && base.Off.lit.Sign() == 0 {
		cur = content
	} else {
		cur = in.D.fresh("app", ArrSort(es))
		j := Term{S: "j", Sort: SInt}
		st.assume(Forall([]Term{j}, Implies(And(Le(IntLit(0), j), Lt(j, base.Len)), Eq(Select(cur, j), Select(content, Add(base.Off, j)))), []Term{Select(cur, j)}))
		in.arrayRangeAxiomSt(cur, elemT, st)
	}
	n := base.Len
	for _, a := range call.Args[1:] {
		v := f.evalAssignable(a, elemT, st)
		cur = Store(cur, n, in.freeze(v, elemT, st, f))
		n = Add(n, IntLit(1))
	}
	st.store[reg] = ArrV{T: f.nameIt(st, "app", cur)}
	cp := in.D.fresh("appcap", SInt)
	st.assume(And(Le(n, cp), Le(cp, IntLit(maxSliceLen))))
	return SliceV{Reg: reg, Off: IntLit(0), Len: f.nameIt(st, "applen", n), Cap: cp, Nil: TFalse}
}

func (in *Interp) arrayRangeAxiomSt(a Term, elem types.Type, st *State) {
	if elemSortOf(a.Sort) != SInt {
		return
	}
	lo, hi, ok := intRange(elem)
	if !ok {
		return
	}
	j := Term{S: "j", Sort: SInt}
	sel := Select(a, j)
	st.assume(Forall([]Term{j}, And(Le(BigLit(lo), sel), Le(sel, BigLit(hi))), []Term{sel}))
}

// ---------- closures ----------

func (f *Frame) closureOf(id *ast.Ident) *ast.FuncLit {
	obj := f.pkg.TypesInfo.ObjectOf(id)
	for fr := f; fr != nil; fr = fr.parent {
		if fr.closures != nil {
			if l, ok := fr.closures[obj]; ok {
				return l
			}
		}
	}
	return nil
}

func (f *Frame) callClosure(lit *ast.FuncLit, call *ast.CallExpr, st *State, k func(*State, []Val)) []Outcome {
	f.in.unsupported(call.Pos(), "closure call")
	return nil
}

// ---------- inlining ----------

func (f *Frame) inlineCall(fd *ast.FuncDecl, pk *pkgInfo, fn *types.Func, key string, recv Val, args []Val, st *State, call *ast.CallExpr, k func(*State, []Val)) []Outcome {
	in := f.in
	sub := &Frame{in: in, pkg: pk.P, decl: fd, key: key, vars: map[types.Object]*Cell{}, parent: f, depth: f.depth + 1,
		contract: in.W.contractFor(key), tmap: f.inferTypeArgs(call, fn)}
	sub.bindParams(recv, args, st)
	var outs []Outcome
	for _, o := range sub.execBlock(fd.Body.List, st) {
		switch o.Kind {
		case ONormal:
			if sub.signature().Results().Len() != 0 {
				in.unsupported(fd.Pos(), "missing return in %s", key)
			}
			sub.runDefers(o.St)
			k(o.St, nil)
			outs = append(outs, Outcome{St: o.St, Kind: ONormal})
		case OReturn:
			sub.runDefers(o.St)
			vs := o.Rets
			if len(sub.results) > 0 && len(vs) == len(sub.results) {
				// deferred functions may have modified named results
				for i, c := range sub.results {
					vs[i] = in.load(o.St, c, sub)
				}
			}
			k(o.St, vs)
			outs = append(outs, Outcome{St: o.St, Kind: ONormal})
		default:
			in.unsupported(fd.Pos(), "break/continue escaping function")
		}
	}
	return outs
}

func (f *Frame) inferTypeArgs(call *ast.CallExpr, fn *types.Func) map[string]types.Type {
	// instantiated generic function: record type arguments by parameter name
	var id *ast.Ident
	switch e := ast.Unparen(call.Fun).(type) {
	case *ast.Ident:
		id = e
	case *ast.SelectorExpr:
		id = e.Sel
	case *ast.IndexExpr:
		switch g := e.X.(type) {
		case *ast.Ident:
			id = g
		case *ast.SelectorExpr:
			id = g.Sel
		}
	}
	m := map[string]types.Type{}
	if id != nil {
		if inst, ok := f.pkg.TypesInfo.Instances[id]; ok {
			tps := fn.Origin().Type().(*types.Signature).TypeParams()
			for i := 0; i < tps.Len() && i < inst.TypeArgs.Len(); i++ {
				m[tps.At(i).Obj().Name()] = f.resolve(inst.TypeArgs.At(i))
			}
		}
	}
	return m
}

func (f *Frame) bindParams(recv Val, args []Val, st *State) {
	in := f.in
	var ftype *ast.FuncType
	var recvList *ast.FieldList
	if f.decl != nil {
		ftype = f.decl.Type
		recvList = f.decl.Recv
	} else {
		ftype = f.lit.Type
	}
	f.params = map[string]Val{}
	if recvList != nil && len(recvList.List) > 0 {
		fl := recvList.List[0]
		if len(fl.Names) > 0 && fl.Names[0].Name != "_" {
			obj := f.pkg.TypesInfo.Defs[fl.Names[0]]
			// adapt pointer/value receiver
			_, wantPtr := obj.Type().(*types.Pointer)
			rv := recv
			if p, isPtr := rv.(PtrV); isPtr && !wantPtr {
				rv = in.load(st, p.To, f)
			} else if !isPtr && wantPtr && rv != nil {
				c := in.newCell("recvcopy", CVar, obj.Type().(*types.Pointer).Elem())
				st.store[c] = rv
				rv = PtrV{To: c, Nil: TFalse}
				in.note("method with pointer receiver called on a value: receiver copied (writes not propagated)")
			}
			c := in.newCell(fl.Names[0].Name, CVar, obj.Type())
			f.vars[obj] = c
			st.store[c] = rv
			f.params[fl.Names[0].Name] = rv
			f.recvName = fl.Names[0].Name
		}
	}
	i := 0
	for _, fl := range ftype.Params.List {
		if len(fl.Names) == 0 {
			i++
			continue
		}
		for _, n := range fl.Names {
			if n.Name != "_" {
				obj := f.pkg.TypesInfo.Defs[n]
				c := in.newCell(n.Name, CVar, f.resolve(obj.Type()))
				f.vars[obj] = c
				st.store[c] = args[i]
				f.params[n.Name] = args[i]
			}
			i++
		}
	}
	if ftype.Results != nil {
		for _, fl := range ftype.Results.List {
			for _, n := range fl.Names {
				obj := f.pkg.TypesInfo.Defs[n]
				c := in.newCell(n.Name, CVar, f.resolve(obj.Type()))
				f.vars[obj] = c
				st.store[c] = in.zeroVal(obj.Type(), f)
				f.results = append(f.results, c)
			}
		}
	}
}

func (f *Frame) runDefers(st *State) {
	for i := len(f.defers) - 1; i >= 0; i-- {
		d := f.defers[i]
		n := 0
		f.execCallStmt(d, st, func(s2 *State, vs []Val) {
			n++
			if s2 != st {
				*st = *s2
			}
		})
		if n != 1 {
			f.in.unsupported(d.Pos(), "forking deferred call")
		}
	}
}

// ---------- contracts at call sites ----------

func (f *Frame) applyContract(c *Contract, fn *types.Func, recv Val, args []Val, st *State, call *ast.CallExpr, ord int) []Val {
	in := f.in
	sig := fn.Origin().Type().(*types.Signature)
	sub := &Frame{in: in, pkg: f.pkg, key: c.Pkg + "." + c.Name, tmap: f.inferTypeArgs(call, fn), parent: nil}
	env := &SpecEnv{in: in, f: f, st: st, vars: map[string]Val{}, pkgPath: c.Pkg, lets: map[string]SExpr{}}
	_ = sub
	// bind receiver and parameters by their declared names
	names := in.W.paramNames(c, fn)
	if sig.Recv() != nil && names.recv != "" {
		env.vars[names.recv] = recv
	}
	for i, n := range names.params {
		if n != "" && n != "_" && i < len(args) {
			env.vars[n] = args[i]
		}
	}
	for _, l := range c.Lets {
		env.lets[l.Name] = l.E
	}
	// preconditions
	for i, r := range c.Requires {
		goal := env.evalBool(r.E)
		name := fmt.Sprintf("%s#call%d.pre:%d(%s)", f.key, ord, i+1, c.Name)
		f.curGroup = clauseGroup(r.Props)
		f.oblige(st, "callpre", name, call.Pos(), goal, r.Text)
		f.curGroup = ""
		st.assume(inGroup(goal, clauseGroup(r.Props)))
	}
	pre := st.clone()
	// havoc the modifies set
	for _, m := range c.Modifies {
		f.havocLoc(env, m, st)
	}
	// results
	var results []Val
	env2 := &SpecEnv{in: in, f: f, st: st, old: pre, vars: env.vars, pkgPath: c.Pkg, lets: env.lets}
	env2.vars = map[string]Val{}
	for k, v := range env.vars {
		env2.vars[k] = v
	}
	for i := 0; i < sig.Results().Len(); i++ {
		rt := f.substTypeArgs(sig.Results().At(i).Type(), fn, call)
		v := in.freshValSt(fmt.Sprintf("%s_r%d", sanitize(c.Name), i), rt, f, st)
		results = append(results, v)
		env2.vars[fmt.Sprintf("result%d", i)] = v
		if n := sig.Results().At(i).Name(); n != "" && n != "_" {
			env2.vars[n] = v
		}
		if isErrorType(rt) {
			isParam := false
			for _, n := range names.params {
				if n == "err" {
					isParam = true
				}
			}
			if !isParam {
				env2.vars["err"] = v
			}
		}
	}
	if len(results) == 1 {
		env2.vars["result"] = results[0]
	}
	for _, e := range c.Ensures {
		if len(propTags(e.Props)) > 0 {
			continue // property-tagged clauses are proof obligations of that property only
		}
		st.assume(inGroup(env2.evalBool(e.E), clauseGroup(e.Props)))
	}
	if c.Trusted {
		in.note("assumed contract (trusted, body not verified): " + c.Pkg + "." + c.Name)
	}
	return results
}

// freshValSt is freshVal whose constraints are added to the state rather than globally
// (they are global anyway: fresh symbols), kept for clarity.
func (in *Interp) freshValSt(hint string, t types.Type, f *Frame, st *State) Val {
	return in.freshVal(hint, t, f)
}

func (f *Frame) substTypeArgs(t types.Type, fn *types.Func, call *ast.CallExpr) types.Type {
	if tp, ok := t.(*types.TypeParam); ok {
		m := f.inferTypeArgs(call, fn)
		if r, ok := m[tp.Obj().Name()]; ok {
			return r
		}
	}
	return f.resolve(t)
}

// havocLoc havocs the location denoted by a modifies expression.
func (f *Frame) havocLoc(env *SpecEnv, m SExpr, st *State) {
	in := f.in
	switch x := m.(type) {
	case *SIndex:
		if x.I == nil { // x[] : contents of slice / map / array-through-pointer
			v := env.withState(st).eval(x.X)
			switch b := v.(type) {
			case SliceV:
				in.havocCell(st, b.Reg, f)
				return
			case MapV:
				in.havocCell(st, b.M, f)
				return
			case PtrV:
				in.havocCell(st, b.To, f)
				return
			}
			env.fail("modifies %s: not a slice/map", specString(m))
		}
	case *SCall:
		if id, ok := x.Fun.(*SIdent); ok && id.Name == "gint" {
			c := env.withState(st).gintCell(x)
			st.store[c] = Sc{in.D.fresh(c.Name, SInt)}
			return
		}
	case *SUn:
		if x.Op == "*" {
			p, ok := env.withState(st).eval(x.X).(PtrV)
			if !ok {
				env.fail("modifies *%s: not a pointer", specString(x.X))
			}
			in.havocCell(st, p.To, f)
			return
		}
	case *SSel:
		// p.f : field of a pointer target
		base := env.withState(st).eval(x.X)
		if p, ok := base.(PtrV); ok {
			cur := in.load(st, p.To, f).(StructV)
			nf := make([]Val, len(cur.F))
			copy(nf, cur.F)
			for i := 0; i < cur.Typ.NumFields(); i++ {
				if cur.Typ.Field(i).Name() == x.Name {
					nf[i] = in.freshVal(x.Name, cur.Typ.Field(i).Type(), f)
					st.store[p.To] = StructV{Typ: cur.Typ, F: nf}
					return
				}
			}
		}
	}
	env.fail("unsupported modifies target %s", specString(m))
}

// pureExternCall models a side-effect-free method/function as an uninterpreted function.
func (f *Frame) pureExternCall(key string, fn *types.Func, recv Val, recvT types.Type, args []Val, st *State) []Val {
	in := f.in
	sig := fn.Type().(*types.Signature)
	var ts []Term
	var sorts []string
	if recv != nil {
		rt := sig.Recv().Type()
		if recvT != nil {
			rt = recvT
		}
		t := in.freeze(recv, rt, st, f)
		ts = append(ts, t)
		sorts = append(sorts, t.Sort)
	}
	for i, a := range args {
		t := in.freeze(a, sig.Params().At(i).Type(), st, f)
		ts = append(ts, t)
		sorts = append(sorts, t.Sort)
	}
	var res []Val
	for i := 0; i < sig.Results().Len(); i++ {
		rt := f.resolve(sig.Results().At(i).Type())
		rs := in.sortOf(rt)
		name := fmt.Sprintf("uf_%s_%d", sanitize(key), i)
		in.D.declareFun(name, sorts, rs)
		t := App(name, rs, ts...)
		if rs == SInt {
			in.ufRangeAxiom(name, sorts, rt)
		}
		res = append(res, in.thaw(t, rt, f))
	}
	in.note("pure extern (uninterpreted function of its arguments): " + key)
	return res
}

var _ = token.NoPos

// funcObj finds the types.Func a contract is about.
func (w *World) funcObj(c *Contract) *types.Func {
	pi, ok := w.Pkgs[c.Pkg]
	if !ok {
		return nil
	}
	scope := pi.P.Types.Scope()
	name := c.Name
	if strings.Contains(name, "/") {
		// fully qualified name of a function/method of a package that is only imported
		// (path.Func or path.Type.Method): resolve it through the import graph
		slash := strings.LastIndex(name, "/")
		dot := strings.Index(name[slash:], ".")
		if dot < 0 {
			return nil
		}
		path, rest := name[:slash+dot], name[slash+dot+1:]
		var ext *types.Package
		for _, q := range w.Pkgs {
			for _, imp := range q.P.Types.Imports() {
				if imp.Path() == path {
					ext = imp
				}
			}
		}
		if ext == nil {
			return nil
		}
		scope = ext.Scope()
		name = rest
		if strings.HasPrefix(name, "(") {
			// path.(*T).M / path.(T).M
			if cl := strings.Index(name, ")"); cl > 0 && cl+2 <= len(name) {
				tn := strings.TrimPrefix(name[1:cl], "*")
				if tobj, _ := scope.Lookup(tn).(*types.TypeName); tobj != nil {
					obj, _, _ := types.LookupFieldOrMethod(types.NewPointer(tobj.Type()), true, ext, name[cl+2:])
					fn, _ := obj.(*types.Func)
					return fn
				}
			}
			return nil
		}
		if i := strings.Index(name, "."); i >= 0 {
			tobj, _ := scope.Lookup(name[:i]).(*types.TypeName)
			if tobj == nil {
				return nil
			}
			obj, _, _ := types.LookupFieldOrMethod(tobj.Type(), true, ext, name[i+1:])
			fn, _ := obj.(*types.Func)
			return fn
		}
		fn, _ := scope.Lookup(name).(*types.Func)
		return fn
	}
	if strings.HasPrefix(name, "(") {
		// (*T).M or (T).M
		cl := strings.Index(name, ")")
		tn := strings.TrimPrefix(name[1:cl], "*")
		m := name[cl+2:]
		tobj, _ := scope.Lookup(tn).(*types.TypeName)
		if tobj == nil {
			return nil
		}
		obj, _, _ := types.LookupFieldOrMethod(types.NewPointer(tobj.Type()), true, pi.P.Types, m)
		fn, _ := obj.(*types.Func)
		return fn
	}
	if i := strings.Index(name, "."); i >= 0 {
		tobj, _ := scope.Lookup(name[:i]).(*types.TypeName)
		if tobj == nil {
			return nil
		}
		obj, _, _ := types.LookupFieldOrMethod(tobj.Type(), true, pi.P.Types, name[i+1:])
		fn, _ := obj.(*types.Func)
		return fn
	}
	fn, _ := scope.Lookup(name).(*types.Func)
	return fn
}

// pureApply models a call to a function declared `pure` as an uninterpreted
// function of (receiver, arguments); its ensures clauses are assumed for the result.
func (f *Frame) pureApply(c *Contract, fn *types.Func, recv Val, args []Val, st *State) []Val {
	in := f.in
	sig := fn.Type().(*types.Signature)
	var ts []Term
	var sorts []string
	if recv != nil && sig.Recv() != nil {
		rt := sig.Recv().Type()
		var t Term
		if p, ok := recv.(PtrV); ok {
			if _, isPtr := rt.Underlying().(*types.Pointer); !isPtr {
				content := in.load(st, p.To, f)
				if sc, isSc := content.(Sc); isSc && strings.HasPrefix(sc.T.Sort, "O_") && types.IsInterface(rt) {
					// a pointer to a type declared opaque behind an interface receiver: the same
					// reference term the pointer-receiver form of the getter sees
					t = in.refOf(p)
				} else {
					recv = content
				}
			}
		}
		if t.S == "" && t.Sort == "" {
			t = in.freeze(recv, rt, st, f)
		}
		ts = append(ts, t)
		sorts = append(sorts, t.Sort)
	}
	ignored := map[string]bool{}
	for _, n := range strings.Fields(c.Opts["ignore"]) {
		ignored[n] = true
	}
	ai := 0
	for i := 0; i < sig.Params().Len(); i++ {
		if ignored[sig.Params().At(i).Name()] || ignored[fmt.Sprintf("#%d", i)] {
			if len(args) == sig.Params().Len() {
				ai++
			}
			continue
		}
		if ai >= len(args) {
			break
		}
		t := in.freeze(args[ai], sig.Params().At(i).Type(), st, f)
		if _, isIface := f.resolve(sig.Params().At(i).Type()).Underlying().(*types.Interface); isIface && !isErrorType(sig.Params().At(i).Type()) {
			if _, isPtr := args[ai].(PtrV); !isPtr && t.Sort != "Iface" && t.Sort != SErr {
				// a concrete value passed where an interface is expected (spec-side call): box it the
				// way the code-side conversion does
				in.D.declareSort("Iface")
				fn := "box_" + sanitize(t.Sort)
				in.D.declareFun(fn, []string{t.Sort}, "Iface")
				t = App(fn, "Iface", t)
			}
		}
		ai++
		ts = append(ts, t)
		sorts = append(sorts, t.Sort)
	}
	var res []Val
	for i := 0; i < sig.Results().Len(); i++ {
		rt := f.resolve(sig.Results().At(i).Type())
		rs := in.sortOf(rt)
		name := pureUFName(c, i, sorts...)
		in.D.declareFun(name, sorts, rs)
		t := App(name, rs, ts...)
		if rs == SInt {
			in.ufRangeAxiom(name, sorts, rt)
		}
		if at, isArr := rt.Underlying().(*types.Array); isArr && rs == ArrSort(SInt) {
			// a fixed-size array result is canonical outside its bounds (arrays are total in SMT): two
			// results that agree on their live indices are then equal as map keys / function arguments
			var vars []Term
			for i, s := range sorts {
				vars = append(vars, Term{S: fmt.Sprintf("a%d", i), Sort: s})
			}
			jv := Term{S: "j!c", Sort: SInt}
			sel := Select(App(name, rs, vars...), jv)
			body := Implies(Or(Lt(jv, IntLit(0)), Le(IntLit(at.Len()), jv)), Eq(sel, IntLit(0)))
			in.D.declareOnce("ufcanon:"+name, fmt.Sprintf("(assert %s)", Forall(append(vars, jv), body, []Term{sel}).S))
			// consequence (canonical + extensionality), stated so that the solvers need not find it:
			// equal byte-string views of two results mean equal results
			if c.Opts["strinj"] == "" {
				// only on request (`opt strinj yes`): the two-trigger axiom slows unrelated goals down
				res = append(res, in.thaw(t, rt, f))
				continue
			}
			var vars2 []Term
			for i, s := range sorts {
				vars2 = append(vars2, Term{S: fmt.Sprintf("b%d", i), Sort: s})
			}
			s1 := App("mkstr", SStr, App(name, rs, vars...), IntLit(0), IntLit(at.Len()))
			s2 := App("mkstr", SStr, App(name, rs, vars2...), IntLit(0), IntLit(at.Len()))
			inj := Forall(append(append([]Term{}, vars...), vars2...), Implies(Eq(s1, s2), Eq(App(name, rs, vars...), App(name, rs, vars2...))), []Term{s1, s2})
			in.D.declareOnce("ufcanoninj:"+name, fmt.Sprintf("(assert %s)", inj.S))
		}
		res = append(res, in.thaw(t, rt, f))
	}
	in.note("pure method/function (uninterpreted function of receiver and arguments; assumption: it is a side-effect-free, deterministic getter): " + c.Pkg + "." + c.Name)
	if len(c.Ensures) > 0 {
		hasBound := false
		for _, t := range ts {
			if strings.Contains(t.S, "!q") {
				hasBound = true
			}
		}
		if hasBound || c.Opts["axiom"] != "" {
			// the arguments mention bound variables of an enclosing quantifier: the ensures cannot be
			// assumed as a ground fact; state them once as a universally quantified axiom over the
			// function symbol instead (pattern: the application itself)
			f.pureAxiom(c, fn, recv != nil && sig.Recv() != nil, ignored)
			return res
		}
		env := &SpecEnv{in: in, f: f, st: st, old: st, vars: map[string]Val{}, pkgPath: c.Pkg, lets: map[string]SExpr{}}
		names := in.W.paramNames(c, fn)
		if names.recv != "" && recv != nil {
			env.vars[names.recv] = recv
		}
		for i, n := range names.params {
			if n != "" && n != "_" && i < len(args) {
				env.vars[n] = args[i]
			}
		}
		for i, v := range res {
			env.vars[fmt.Sprintf("result%d", i)] = v
		}
		if len(res) == 1 {
			env.vars["result"] = res[0]
		}
		for _, e := range c.Ensures {
			st.assume(env.evalBool(e.E))
		}
	}
	return res
}

// pureAxiom states the ensures of a pure contract as one universally quantified axiom
// forall params :: ensures(params, uf(params)), triggered by the application.
func (f *Frame) pureAxiom(c *Contract, fn *types.Func, withRecv bool, ignored map[string]bool) {
	in := f.in
	key := "pureax:" + c.Pkg + "." + c.Name
	if in.pureAxDone == nil {
		in.pureAxDone = map[string]bool{}
	}
	if in.pureAxDone[key] {
		return
	}
	in.pureAxDone[key] = true
	sig := fn.Type().(*types.Signature)
	names := in.W.paramNames(c, fn)
	env := &SpecEnv{in: in, f: f, st: nil, old: nil, vars: map[string]Val{}, pkgPath: c.Pkg, lets: map[string]SExpr{}}
	st0 := &State{store: map[*Cell]Val{}}
	env.st, env.old = st0, st0
	var bvs []Term
	var sorts []string
	if withRecv {
		rt := f.resolve(sig.Recv().Type())
		bv := Term{S: "pxr!q0", Sort: in.sortOf(rt)}
		bvs = append(bvs, bv)
		sorts = append(sorts, bv.Sort)
		if names.recv != "" {
			env.vars[names.recv] = in.thaw(bv, rt, f)
		}
	}
	for i := 0; i < sig.Params().Len(); i++ {
		if ignored[sig.Params().At(i).Name()] || ignored[fmt.Sprintf("#%d", i)] {
			continue
		}
		pt := f.resolve(sig.Params().At(i).Type())
		bv := Term{S: fmt.Sprintf("px%d!q0", i), Sort: in.sortOf(pt)}
		bvs = append(bvs, bv)
		sorts = append(sorts, bv.Sort)
		if i < len(names.params) && names.params[i] != "" && names.params[i] != "_" {
			env.vars[names.params[i]] = in.thaw(bv, pt, f)
		}
	}
	var hyps []Term
	for i := 0; i < sig.Params().Len(); i++ {
		if ignored[sig.Params().At(i).Name()] || ignored[fmt.Sprintf("#%d", i)] {
			continue
		}
		pt := f.resolve(sig.Params().At(i).Type())
		if _, _, ok := intRange(pt); ok {
			hyps = append(hyps, inRange(Term{S: fmt.Sprintf("px%d!q0", i), Sort: SInt}, pt))
		}
	}
	var apps []Term
	for i := 0; i < sig.Results().Len(); i++ {
		rt := f.resolve(sig.Results().At(i).Type())
		rs := in.sortOf(rt)
		name := pureUFName(c, i, sorts...)
		in.D.declareFun(name, sorts, rs)
		t := App(name, rs, bvs...)
		apps = append(apps, t)
		v := in.thaw(t, rt, f)
		env.vars[fmt.Sprintf("result%d", i)] = v
		if sig.Results().Len() == 1 {
			env.vars["result"] = v
		}
	}
	var body []Term
	for _, e := range c.Ensures {
		body = append(body, env.evalBool(e.E))
	}
	if len(st0.hyps) > 0 {
		in.unsupported(token.NoPos, "pure contract %s: ensures with side conditions cannot be stated as an axiom", c.Name)
	}
	ax := Implies(And(hyps...), And(body...))
	if len(bvs) == 0 {
		in.D.declareOnce(key, fmt.Sprintf("(assert %s)", ax.S))
		return
	}
	in.D.declareOnce(key, fmt.Sprintf("(assert %s)", Forall(bvs, ax, apps[:1]).S))
}

// ufRangeAxiom: results of an uninterpreted function of integer type stay in the type's range.
func (in *Interp) ufRangeAxiom(name string, sorts []string, rt types.Type) {
	lo, hi, ok := intRange(rt)
	if !ok {
		return
	}
	var vars []Term
	for i, s := range sorts {
		vars = append(vars, Term{S: fmt.Sprintf("a%d", i), Sort: s})
	}
	app := App(name, SInt, vars...)
	body := And(Le(BigLit(lo), app), Le(app, BigLit(hi)))
	if len(vars) == 0 {
		in.D.declareOnce("ufrange:"+name, fmt.Sprintf("(assert %s)", body.S))
		return
	}
	in.D.declareOnce("ufrange:"+name, fmt.Sprintf("(assert %s)", Forall(vars, body, []Term{app}).S))
}

// staticCallOrd numbers the calls to declared functions/methods of the frame's
// function in source order (pre-order of the AST), independent of the path taken.
func (f *Frame) staticCallOrd(call *ast.CallExpr) int {
	if f.callOrds == nil {
		f.callOrds = map[*ast.CallExpr]int{}
		var body ast.Node
		if f.decl != nil && f.decl.Body != nil {
			body = f.decl.Body
		} else if f.lit != nil {
			body = f.lit.Body
		}
		if body != nil {
			n := 0
			ast.Inspect(body, func(x ast.Node) bool {
				if c, ok := x.(*ast.CallExpr); ok {
					if fn := f.calleeOf(c); fn != nil && !isDroppedKey(funcKey(fn)) {
						n++
						f.callOrds[c] = n
					}
				}
				return true
			})
		}
	}
	return f.callOrds[call]
}

// runAsserts proves and then assumes the `at call N assert` clauses of the contract.
func (f *Frame) runAsserts(ord int, st *State, call *ast.CallExpr) {
	if f.contract == nil || st.dead {
		return
	}
	if len(f.contract.NamedOrd) > 0 && ord >= 0 {
		name := ""
		switch fn := ast.Unparen(call.Fun).(type) {
		case *ast.Ident:
			name = fn.Name
		case *ast.SelectorExpr:
			name = fn.Sel.Name
		}
		if n, ok := f.contract.NamedOrd[name]; ok && name != "" {
			f.runAsserts(n, st, call)
		}
	}
	if ord == 0 {
		return
	}
	for _, name := range f.contract.Snapshots[ord] {
		if f.snapshots == nil {
			f.snapshots = map[string]*State{}
		}
		f.snapshots[name] = st.clone()
	}
	if len(f.contract.Asserts[ord]) > 0 {
		if f.assertHit == nil {
			f.assertHit = map[int]bool{}
		}
		f.assertHit[ord] = true
	}
	for i, a := range f.contract.Asserts[ord] {
		if pt := propTags(a.Props); len(pt) > 0 && !hasProp(pt, currentProp) {
			continue // property-tagged assertion: proved (and assumed) only under that property
		}
		env := f.specEnvAt(st, call.End())
		goal := env.evalBool(a.E)
		oname := fmt.Sprintf("%s#call%d.assert:%d", f.key, ord, i+1)
		if ord < 0 {
			for nm, n := range f.contract.NamedOrd {
				if n == ord {
					oname = fmt.Sprintf("%s#call@%s.assert:%d", f.key, nm, i+1)
				}
			}
		}
		f.curGroup = clauseGroup(a.Props)
		f.oblige(st, "assert", oname, call.Pos(), goal, a.Text)
		f.curGroup = ""
		st.assume(inGroup(goal, clauseGroup(a.Props)))
	}
}

// pureUFName: the function symbol of result i of a pure contract.  `opt uf NAME` lets several
// interface methods that are implemented by one and the same concrete method (dsmr.Tx.GetID and
// eheap.Item.GetID on the same transaction type) share a symbol.
func pureUFName(c *Contract, i int, sorts ...string) string {
	if u := strings.TrimSpace(c.Opts["uf"]); u != "" {
		// one symbol per argument sort: the same concrete method reached through different
		// interfaces shares it, values of different representations do not clash
		suffix := ""
		for _, s := range sorts {
			if s != "Iface" {
				suffix += "_" + sanitize(s)
			}
		}
		return fmt.Sprintf("uf_%s%s_%d", sanitize(u), suffix, i)
	}
	return fmt.Sprintf("uf_%s_%d", sanitize(c.Pkg+"."+c.Name), i)
}
