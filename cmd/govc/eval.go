package main

import (
	"go/constant"
	"fmt"
	"go/ast"
	"go/token"
	"go/types"
	"math/big"
)

// ---------- obligations ----------

func (f *Frame) oblige(st *State, kind, name string, pos token.Pos, goal Term, text string) {
	in := f.in
	if st.dead {
		return
	}
	if goal.IsTrue() {
		// trivially discharged by construction; still counted
		in.obls = append(in.obls, &Obligation{Name: name, Func: in.topKey, Kind: kind, Pos: in.W.Fset.Position(pos),
			Decls: len(in.D.lines), Global: len(in.global), Goal: goal, Text: text, Derived: true, Path: pathSig(st)})
		return
	}
	in.obls = append(in.obls, &Obligation{Name: name, Func: in.topKey, Kind: kind, Pos: in.W.Fset.Position(pos),
		Decls: -1, Global: -1, Hyps: append([]Term(nil), st.hyps...), Goal: goal, Text: text, Path: pathSig(st), Inputs: in.inputs, Group: f.curGroup})
}

func pathSig(st *State) string {
	s := ""
	for _, p := range st.path {
		s += p
	}
	return s
}

// safety obligation with per-function ordinal.
func (f *Frame) safe(st *State, what string, pos token.Pos, goal Term) {
	in := f.in
	key := f.key + "#safe:" + what
	in.safetyN[key]++
	name := fmt.Sprintf("%s@%d", key, in.safetyN[key])
	if f.depth > 0 {
		name = fmt.Sprintf("%s<-%s", name, in.topKey)
	}
	f.oblige(st, "safe", name, pos, goal, what)
	// after the check, execution continues only if no panic happened
	st.assume(goal)
}

// ---------- expression evaluation (code mode) ----------

func (f *Frame) typeOf(e ast.Expr) types.Type {
	tv, ok := f.pkg.TypesInfo.Types[e]
	if !ok {
		if id, ok := e.(*ast.Ident); ok {
			if o := f.pkg.TypesInfo.ObjectOf(id); o != nil {
				return f.resolve(o.Type())
			}
		}
		f.in.unsupported(e.Pos(), "no type for expression")
	}
	return f.resolve(tv.Type)
}

func (f *Frame) cellOf(obj types.Object) *Cell {
	for fr := f; fr != nil; fr = fr.parent {
		if c, ok := fr.vars[obj]; ok {
			return c
		}
		if fr.lit == nil {
			break // closures see enclosing frames; declared functions do not
		}
	}
	return nil
}

func (f *Frame) evalExpr(e ast.Expr, st *State) Val {
	in := f.in
	info := f.pkg.TypesInfo
	if tv, ok := info.Types[e]; ok && tv.Value != nil {
		if v, ok := in.constVal(tv.Value, tv.Type); ok {
			return v
		}
	}
	switch x := e.(type) {
	case *ast.ParenExpr:
		return f.evalExpr(x.X, st)
	case *ast.Ident:
		return f.evalIdent(x, st)
	case *ast.BasicLit:
		in.unsupported(x.Pos(), "literal %s", x.Value)
	case *ast.BinaryExpr:
		return f.evalBinary(x, st)
	case *ast.UnaryExpr:
		return f.evalUnary(x, st)
	case *ast.StarExpr:
		p := f.evalExpr(x.X, st).(PtrV)
		f.safe(st, "nilptr", x.Pos(), Not(p.Nil))
		return in.load(st, p.To, f)
	case *ast.SelectorExpr:
		return f.evalSelector(x, st)
	case *ast.IndexExpr:
		return f.evalIndex(x, st)
	case *ast.SliceExpr:
		return f.evalSliceExpr(x, st)
	case *ast.CallExpr:
		vs := f.evalCall(x, st)
		if len(vs) == 1 {
			return vs[0]
		}
		return TupleV{vs}
	case *ast.CompositeLit:
		return f.evalCompositeLit(x, st)
	case *ast.TypeAssertExpr:
		// x.(*T) on an interface that holds a pointer: the pointer itself (dynamic types are not
		// modelled: a failing assertion would panic, which is outside the properties decided here)
		if x.Type != nil {
			if _, isPtr := f.typeOf(x.Type).Underlying().(*types.Pointer); isPtr {
				switch xv := f.evalExpr(x.X, st).(type) {
				case PtrV:
					in.note("type assertion to a pointer type assumed to succeed (dynamic types are not modelled)")
					return xv
				case Sc:
					if xv.T.Sort == "Iface" {
						// an opaque interface value viewed as *T: an arbitrary T behind a non-nil pointer
						pt := f.typeOf(x.Type).Underlying().(*types.Pointer)
						c := in.newCell("asserted", CVar, pt.Elem())
						st.store[c] = in.freshVal("asserted", pt.Elem(), f)
						in.note("type assertion to a pointer type assumed to succeed (dynamic types are not modelled); the pointee is arbitrary")
						return PtrV{To: c, Nil: TFalse}
					}
				}
			}
		}
		in.unsupported(x.Pos(), "type assertion")
	case *ast.FuncLit:
		in.unsupported(x.Pos(), "function literal as value")
	}
	in.unsupported(e.Pos(), "expression %T", e)
	return nil
}

func (f *Frame) evalIdent(x *ast.Ident, st *State) Val {
	in := f.in
	obj := f.pkg.TypesInfo.ObjectOf(x)
	switch o := obj.(type) {
	case *types.Nil:
		in.unsupported(x.Pos(), "untyped nil outside comparison/assignment context")
	case *types.Var:
		if c := f.cellOf(o); c != nil {
			return in.load(st, c, f)
		}
		if o.Pkg() != nil && o.Parent() == o.Pkg().Scope() {
			return in.globalVar(o, f)
		}
		in.unsupported(x.Pos(), "variable %s has no cell", x.Name)
	case *types.Const:
		if v, ok := in.constVal(o.Val(), o.Type()); ok {
			return v
		}
	}
	in.unsupported(x.Pos(), "identifier %s (%T)", x.Name, obj)
	return nil
}

// globalVar models a package-level variable as an immutable symbolic constant.
func (in *Interp) globalVar(o *types.Var, f *Frame) Val {
	key := o.Pkg().Path() + "." + o.Name()
	if isErrorType(o.Type()) {
		return Sc{in.errSentinel(key)}
	}
	if in.globalInitDone == nil {
		in.globalInitDone = map[string]bool{}
	}
	known := in.globalInitDone[key]
	in.globalInitDone[key] = true
	c := in.W.globalCell(in, key, o.Type())
	in.note("package variable " + key + " treated as immutable during the call")
	v := in.load(&State{store: map[*Cell]Val{}}, c, f)
	if !known {
		in.globalInit(o, key, v, f)
	}
	return v
}

// globalInit: an unexported package-level []byte variable initialised with a literal of constant
// bytes and never assigned, indexed-assigned, address-taken, appended to or copied into anywhere in
// its package holds its initial value.
func (in *Interp) globalInit(o *types.Var, key string, v Val, f *Frame) {
	sl, ok := v.(SliceV)
	if !ok || !isByteSlice(o.Type()) || o.Exported() {
		return
	}
	pi := in.W.Pkgs[o.Pkg().Path()]
	if pi == nil {
		return
	}
	info := pi.P.TypesInfo
	var init ast.Expr
	written := false
	isVar := func(e ast.Expr) bool {
		for {
			switch x := ast.Unparen(e).(type) {
			case *ast.Ident:
				return info.ObjectOf(x) == o
			case *ast.IndexExpr:
				e = x.X
			case *ast.SliceExpr:
				e = x.X
			default:
				return false
			}
		}
	}
	for _, file := range pi.P.Syntax {
		ast.Inspect(file, func(n ast.Node) bool {
			switch x := n.(type) {
			case *ast.ValueSpec:
				for i, nm := range x.Names {
					if info.Defs[nm] == o && i < len(x.Values) {
						init = x.Values[i]
					}
				}
			case *ast.AssignStmt:
				for _, l := range x.Lhs {
					if isVar(l) {
						written = true
					}
				}
			case *ast.IncDecStmt:
				if isVar(x.X) {
					written = true
				}
			case *ast.UnaryExpr:
				if x.Op == token.AND && isVar(x.X) {
					written = true
				}
			case *ast.CallExpr:
				if id, ok := ast.Unparen(x.Fun).(*ast.Ident); ok && (id.Name == "append" || id.Name == "copy" || id.Name == "clear") && len(x.Args) > 0 && isVar(x.Args[0]) {
					written = true
				}
			}
			return true
		})
	}
	cl, ok := init.(*ast.CompositeLit)
	if !ok || written {
		return
	}
	var bytesv []int64
	for _, e := range cl.Elts {
		tv, ok := info.Types[e]
		if !ok || tv.Value == nil {
			return
		}
		n, exact := constant.Int64Val(constant.ToInt(tv.Value))
		if !exact {
			return
		}
		bytesv = append(bytesv, n)
	}
	content := in.regionContent(nil, sl.Reg, f)
	in.assumeGlobal(Eq(sl.Len, IntLit(int64(len(bytesv)))))
	in.assumeGlobal(Not(sl.Nil))
	for i, b := range bytesv {
		in.assumeGlobal(Eq(Select(content, Add(sl.Off, IntLit(int64(i)))), IntLit(b)))
	}
	in.note("package variable " + key + " holds its initial literal value (checked: never assigned, index-assigned, address-taken, appended to or copied into in its package; assumption: no callee writes through the slice)")
}

func (in *Interp) errSentinel(key string) Term {
	if t, ok := in.errVars[key]; ok {
		return t
	}
	name := "err_" + sanitize(key)
	in.D.declareOnce("errv:"+name, fmt.Sprintf("(declare-const %s Err)", name))
	t := Term{S: name, Sort: SErr}
	in.assumeGlobal(Not(Eq(t, in.errNil())))
	for _, o := range in.errVars {
		in.assumeGlobal(Not(Eq(t, o)))
	}
	in.errVars[key] = t
	return t
}

func (f *Frame) isNilExpr(e ast.Expr) bool {
	if id, ok := ast.Unparen(e).(*ast.Ident); ok {
		_, isNil := f.pkg.TypesInfo.ObjectOf(id).(*types.Nil)
		return isNil
	}
	return false
}

// nilTest returns the Bool term "v is nil".
func (f *Frame) nilTest(v Val, pos token.Pos) Term {
	switch x := v.(type) {
	case SliceV:
		return x.Nil
	case PtrV:
		return x.Nil
	case MapV:
		return x.Nil
	case Sc:
		switch x.T.Sort {
		case SErr:
			return Eq(x.T, f.in.errNil())
		case "Iface":
			f.in.D.declareOnce("iface_nil", "(declare-const iface_nil Iface)")
			return Eq(x.T, Term{S: "iface_nil", Sort: "Iface"})
		case "FuncVal":
			f.in.D.declareOnce("func_nil", "(declare-const func_nil FuncVal)")
			return Eq(x.T, Term{S: "func_nil", Sort: "FuncVal"})
		case SStr:
			return App("snil", SBool, x.T)
		}
	}
	f.in.unsupported(pos, "nil comparison on %T", v)
	return Term{}
}

func (f *Frame) evalBinary(x *ast.BinaryExpr, st *State) Val {
	in := f.in
	switch x.Op {
	case token.LAND, token.LOR:
		l := f.evalExpr(x.X, st).(Sc).T
		// evaluate RHS under the guard; side conditions inside get the guard as hypothesis
		guard := l
		if x.Op == token.LOR {
			guard = Not(l)
		}
		sub := st.clone()
		sub.assume(guard)
		base := len(sub.hyps)
		r := f.evalExpr(x.Y, sub).(Sc).T
		// facts assumed inside the guarded evaluation (safety continuations) stay local;
		// definitions introduced (fresh symbols) are global declarations, their defining
		// hyps must be kept conditionally:
		for _, h := range sub.hyps[base:] {
			st.assume(Implies(guard, h))
		}
		for c, v := range sub.store {
			ov, ok := st.store[c]
			if !ok {
				if iv, had := in.initial[c]; had && !sameVal(iv, v) {
					in.unsupported(x.Pos(), "side effect in short-circuit operand")
				}
				st.store[c] = v
				continue
			}
			if !sameVal(ov, v) {
				in.unsupported(x.Pos(), "side effect in short-circuit operand")
			}
		}
		if x.Op == token.LAND {
			return Sc{And(l, r)}
		}
		return Sc{Or(l, r)}
	case token.EQL, token.NEQ:
		var t Term
		if f.isNilExpr(x.Y) {
			t = f.nilTest(f.evalExpr(x.X, st), x.Pos())
		} else if f.isNilExpr(x.X) {
			t = f.nilTest(f.evalExpr(x.Y, st), x.Pos())
		} else {
			l := f.evalExpr(x.X, st)
			r := f.evalExpr(x.Y, st)
			t = in.valEq(l, r, st, f, x.Pos())
		}
		if x.Op == token.NEQ {
			t = Not(t)
		}
		return Sc{t}
	}
	l := f.evalExpr(x.X, st)
	r := f.evalExpr(x.Y, st)
	lt := f.typeOf(x.X)
	resT := f.typeOf(x)
	switch x.Op {
	case token.LSS, token.LEQ, token.GTR, token.GEQ:
		if isString(lt) {
			in.unsupported(x.Pos(), "string ordering")
		}
		a, b := l.(Sc).T, r.(Sc).T
		switch x.Op {
		case token.LSS:
			return Sc{Lt(a, b)}
		case token.LEQ:
			return Sc{Le(a, b)}
		case token.GTR:
			return Sc{Gt(a, b)}
		default:
			return Sc{Ge(a, b)}
		}
	}
	if isString(resT) && x.Op == token.ADD {
		return Sc{in.strConcat(l.(Sc).T, r.(Sc).T)}
	}
	return Sc{f.arith(x.Op, l.(Sc).T, r.(Sc).T, resT, f.typeOf(x.Y), st, x.Pos())}
}

func sameVal(a, b Val) bool {
	switch x := a.(type) {
	case Sc:
		y, ok := b.(Sc)
		return ok && x.T.S == y.T.S
	case ArrV:
		y, ok := b.(ArrV)
		return ok && x.T.S == y.T.S
	case MapC:
		y, ok := b.(MapC)
		return ok && x.Has.S == y.Has.S && x.Val.S == y.Val.S && x.Card.S == y.Card.S
	case SliceV:
		y, ok := b.(SliceV)
		return ok && x.Reg == y.Reg && x.Off.S == y.Off.S && x.Len.S == y.Len.S && x.Cap.S == y.Cap.S && x.Nil.S == y.Nil.S
	case PtrV:
		y, ok := b.(PtrV)
		return ok && x.To == y.To && x.Nil.S == y.Nil.S
	case MapV:
		y, ok := b.(MapV)
		return ok && x.M == y.M && x.Nil.S == y.Nil.S
	case IterV:
		y, ok := b.(IterV)
		return ok && x.Cur.S == y.Cur.S && x.Prefix.S == y.Prefix.S
	case BatchV:
		y, ok := b.(BatchV)
		if !ok || x.DB != y.DB || x.D.S != y.D.S || len(x.Ops) != len(y.Ops) || (x.Base == nil) != (y.Base == nil) {
			return false
		}
		if x.Base != nil && (x.Base.T.S != y.Base.T.S || x.Base.H.S != y.Base.H.S || x.Base.V.S != y.Base.V.S) {
			return false
		}
		for i := range x.Ops {
			if x.Ops[i].del != y.Ops[i].del || x.Ops[i].k.S != y.Ops[i].k.S || x.Ops[i].v.S != y.Ops[i].v.S {
				return false
			}
		}
		return true
	case StructV:
		y, ok := b.(StructV)
		if !ok || len(x.F) != len(y.F) {
			return false
		}
		for i := range x.F {
			if !sameVal(x.F[i], y.F[i]) {
				return false
			}
		}
		return true
	}
	return false
}

func (f *Frame) wrap(t Term, typ types.Type) Term {
	bits, signed, ok := intInfo(typ)
	if !ok || bits == 0 {
		return t
	}
	if signed {
		return WrapS(t, bits)
	}
	return WrapU(t, bits)
}

// arith evaluates a machine-arithmetic operation of result type resT.
func (f *Frame) arith(op token.Token, a, b Term, resT, rhsT types.Type, st *State, pos token.Pos) Term {
	in := f.in
	bits, signed, ok := intInfo(resT)
	if !ok {
		in.unsupported(pos, "arithmetic on %s", resT)
	}
	switch op {
	case token.ADD:
		return f.nameIt(st, "add", f.wrap(Add(a, b), resT))
	case token.SUB:
		return f.nameIt(st, "sub", f.wrap(Sub(a, b), resT))
	case token.MUL:
		return f.nameIt(st, "mul", f.wrap(Mul(a, b), resT))
	case token.QUO:
		f.safe(st, "div0", pos, Not(Eq(b, IntLit(0))))
		if !signed {
			return f.nameIt(st, "quo", EDiv(a, b))
		}
		return f.nameIt(st, "quo", f.wrap(GoDiv(a, b), resT))
	case token.REM:
		f.safe(st, "div0", pos, Not(Eq(b, IntLit(0))))
		if !signed {
			return f.nameIt(st, "rem", EMod(a, b))
		}
		return f.nameIt(st, "rem", GoRem(a, b))
	case token.SHL:
		if b.IsLit() && b.lit.IsUint64() && b.lit.Uint64() < 256 {
			return f.nameIt(st, "shl", f.wrap(Mul(a, BigLit(pow2(uint(b.lit.Uint64())))), resT))
		}
	case token.SHR:
		if b.IsLit() && b.lit.IsUint64() && b.lit.Uint64() < 256 {
			// arithmetic shift = floor division
			return f.nameIt(st, "shr", EDiv(a, BigLit(pow2(uint(b.lit.Uint64())))))
		}
	case token.AND, token.OR, token.XOR, token.AND_NOT:
		if bits != 0 && bits <= 16 && !signed {
			return f.bitop(op, a, b, bits, st)
		}
		if a.IsLit() && b.IsLit() {
			r := new(big.Int)
			switch op {
			case token.AND:
				r.And(a.lit, b.lit)
			case token.OR:
				r.Or(a.lit, b.lit)
			case token.XOR:
				r.Xor(a.lit, b.lit)
			case token.AND_NOT:
				r.AndNot(a.lit, b.lit)
			}
			return BigLit(r)
		}
	}
	in.unsupported(pos, "operator %s on %s", op, resT)
	return Term{}
}

// bitop expands a bitwise operation on a narrow unsigned type bit by bit
// (pure integer arithmetic, no int2bv bridge).
func (f *Frame) bitop(op token.Token, a, b Term, bits uint, st *State) Term {
	res := IntLit(0)
	for i := uint(0); i < bits; i++ {
		p := BigLit(pow2(i))
		ba := Eq(EMod(EDiv(a, p), IntLit(2)), IntLit(1))
		bb := Eq(EMod(EDiv(b, p), IntLit(2)), IntLit(1))
		var bit Term
		switch op {
		case token.AND:
			bit = And(ba, bb)
		case token.OR:
			bit = Or(ba, bb)
		case token.XOR:
			bit = Not(Eq(ba, bb))
		case token.AND_NOT:
			bit = And(ba, Not(bb))
		}
		res = Add(res, Ite(bit, p, IntLit(0)))
	}
	return f.nameIt(st, "bits", res)
}

// nameIt introduces a named constant for a compound term (keeps terms small).
func (f *Frame) nameIt(st *State, hint string, t Term) Term {
	if t.IsLit() || t.blit != 0 || len(t.S) < 48 {
		return t
	}
	c := f.in.D.fresh(hint, t.Sort)
	st.assume(Eq(c, t))
	return c
}

func (f *Frame) evalUnary(x *ast.UnaryExpr, st *State) Val {
	in := f.in
	switch x.Op {
	case token.NOT:
		return Sc{Not(f.evalExpr(x.X, st).(Sc).T)}
	case token.SUB:
		v := f.evalExpr(x.X, st).(Sc).T
		return Sc{f.wrap(Neg(v), f.typeOf(x))}
	case token.ADD:
		return f.evalExpr(x.X, st)
	case token.AND:
		// &x for a variable, &T{...} for a composite literal
		switch y := ast.Unparen(x.X).(type) {
		case *ast.Ident:
			obj := f.pkg.TypesInfo.ObjectOf(y)
			if c := f.cellOf(obj); c != nil {
				return PtrV{To: c, Nil: TFalse}
			}
		case *ast.CompositeLit:
			v := f.evalCompositeLit(y, st)
			c := in.newCell("new", CVar, f.typeOf(y))
			st.store[c] = v
			return PtrV{To: c, Nil: TFalse}
		}
		in.unsupported(x.Pos(), "address-of %T", x.X)
	case token.XOR:
		v := f.evalExpr(x.X, st).(Sc).T
		bits, signed, _ := intInfo(f.typeOf(x))
		if !signed && bits > 0 {
			return Sc{Sub(BigLit(new(big.Int).Sub(pow2(bits), big.NewInt(1))), v)}
		}
		return Sc{Sub(IntLit(-1), v)}
	}
	in.unsupported(x.Pos(), "unary %s", x.Op)
	return nil
}

func (f *Frame) evalSelector(x *ast.SelectorExpr, st *State) Val {
	in := f.in
	info := f.pkg.TypesInfo
	if sel, ok := info.Selections[x]; ok {
		switch sel.Kind() {
		case types.FieldVal:
			base := f.evalExpr(x.X, st)
			return f.fieldPath(base, sel.Index(), st, x.Pos())
		default:
			in.unsupported(x.Pos(), "method value")
		}
	}
	// qualified identifier pkg.Name
	obj := info.ObjectOf(x.Sel)
	switch o := obj.(type) {
	case *types.Const:
		if v, ok := in.constVal(o.Val(), o.Type()); ok {
			return v
		}
	case *types.Var:
		return in.globalVar(o, f)
	}
	in.unsupported(x.Pos(), "selector %s", x.Sel.Name)
	return nil
}

// fieldPath follows a (possibly promoted) field index path, dereferencing pointers.
func (f *Frame) fieldPath(base Val, path []int, st *State, pos token.Pos) Val {
	in := f.in
	cur := base
	for _, idx := range path {
		if p, ok := cur.(PtrV); ok {
			f.safe(st, "nilptr", pos, Not(p.Nil))
			cur = in.load(st, p.To, f)
		}
		sv, ok := cur.(StructV)
		if !ok {
			in.unsupported(pos, "field access on %T", cur)
		}
		cur = sv.F[idx]
	}
	return cur
}

func (f *Frame) readElem(arr Term, idx Term) Term { return Select(arr, idx) }

func (f *Frame) evalIndex(x *ast.IndexExpr, st *State) Val {
	in := f.in
	// generic instantiation f[T]
	if tv, ok := f.pkg.TypesInfo.Types[x.X]; ok {
		if _, isSig := tv.Type.Underlying().(*types.Signature); isSig {
			in.unsupported(x.Pos(), "generic function value")
		}
	}
	bt := f.typeOf(x.X)
	base := f.evalExpr(x.X, st)
	if p, ok := base.(PtrV); ok { // pointer to array
		f.safe(st, "nilptr", x.Pos(), Not(p.Nil))
		base = in.load(st, p.To, f)
		bt = bt.Underlying().(*types.Pointer).Elem()
	}
	idxV := f.evalExpr(x.Index, st)
	switch b := base.(type) {
	case ArrV:
		i := idxV.(Sc).T
		f.safe(st, "idx", x.Pos(), And(Le(IntLit(0), i), Lt(i, IntLit(b.N))))
		et := bt.Underlying().(*types.Array).Elem()
		return in.thaw(Select(b.T, i), et, f)
	case SliceV:
		i := idxV.(Sc).T
		f.safe(st, "idx", x.Pos(), And(Le(IntLit(0), i), Lt(i, b.Len)))
		et := bt.Underlying().(*types.Slice).Elem()
		return in.thaw(Select(in.regionContent(st, b.Reg, f), Add(b.Off, i)), et, f)
	case Sc:
		if b.T.Sort == SStr {
			i := idxV.(Sc).T
			f.safe(st, "idx", x.Pos(), And(Le(IntLit(0), i), Lt(i, App("slen", SInt, b.T))))
			r := Select(App("sarr", ArrSort(SInt), b.T), i)
			st.assume(And(Le(IntLit(0), r), Le(r, IntLit(255))))
			return Sc{r}
		}
	case MapV:
		mt := bt.Underlying().(*types.Map)
		mc := in.load(st, b.M, f).(MapC)
		k := in.freeze(idxV, mt.Key(), st, f)
		zero := in.zeroTerm(mt.Elem(), f)
		return in.thaw(Ite(Select(mc.Has, k), Select(mc.Val, k), zero), mt.Elem(), f)
	}
	in.unsupported(x.Pos(), "index on %T", base)
	return nil
}

func (f *Frame) evalSliceExpr(x *ast.SliceExpr, st *State) Val {
	in := f.in
	if x.Slice3 {
		in.unsupported(x.Pos(), "3-index slice")
	}
	base := f.evalExpr(x.X, st)
	bt := f.typeOf(x.X)
	var lo, hi Term
	if x.Low != nil {
		lo = f.evalExpr(x.Low, st).(Sc).T
	} else {
		lo = IntLit(0)
	}
	if p, ok := base.(PtrV); ok { // pointer to array: p[a:b]
		f.safe(st, "nilptr", x.Pos(), Not(p.Nil))
		arr := in.load(st, p.To, f).(ArrV)
		return f.sliceOfArrayCell(p.To, arr, lo, x, st)
	}
	switch b := base.(type) {
	case SliceV:
		if x.High != nil {
			hi = f.evalExpr(x.High, st).(Sc).T
		} else {
			hi = b.Len
		}
		f.safe(st, "slice", x.Pos(), And(Le(IntLit(0), lo), Le(lo, hi), Le(hi, b.Cap)))
		return SliceV{Reg: b.Reg, Off: Add(b.Off, lo), Len: Sub(hi, lo), Cap: Sub(b.Cap, lo), Nil: And(b.Nil, Eq(hi, IntLit(0)))}
	case ArrV:
		// slicing an addressable array variable: the slice aliases the variable
		if id, ok := ast.Unparen(x.X).(*ast.Ident); ok {
			if c := f.cellOf(f.pkg.TypesInfo.ObjectOf(id)); c != nil {
				return f.sliceOfArrayCell(c, b, lo, x, st)
			}
		}
		// an array FIELD of an addressable struct variable (d.Signer[:] with d a local or *p):
		// the slice aliases the field -- writes through it are synchronised back when the struct is
		// loaded (Interp.fieldViews)
		if sel, ok := ast.Unparen(x.X).(*ast.SelectorExpr); ok {
			if s, ok := f.pkg.TypesInfo.Selections[sel]; ok && s.Kind() == types.FieldVal && len(s.Index()) == 1 {
				var sc *Cell
				if id, ok := ast.Unparen(sel.X).(*ast.Ident); ok {
					if pv, isPtr := f.evalExpr(sel.X, st).(PtrV); isPtr {
						sc = pv.To
					} else {
						sc = f.cellOf(f.pkg.TypesInfo.ObjectOf(id))
					}
				}
				if sc != nil {
					if _, isStruct := in.load(st, sc, f).(StructV); isStruct {
						n := IntLit(b.N)
						if x.High != nil {
							hi = f.evalExpr(x.High, st).(Sc).T
						} else {
							hi = n
						}
						f.safe(st, "slice", x.Pos(), And(Le(IntLit(0), lo), Le(lo, hi), Le(hi, n)))
						reg := in.fieldViewCell(sc, s.Index()[0], b, bt.Underlying().(*types.Array).Elem(), st)
						return SliceV{Reg: reg, Off: lo, Len: Sub(hi, lo), Cap: Sub(n, lo), Nil: TFalse}
					}
				}
			}
		}
		// non-addressable arrays: read-only snapshot view
		n := IntLit(b.N)
		if x.High != nil {
			hi = f.evalExpr(x.High, st).(Sc).T
		} else {
			hi = n
		}
		f.safe(st, "slice", x.Pos(), And(Le(IntLit(0), lo), Le(lo, hi), Le(hi, n)))
		reg := in.newCell("arrview", CRegion, bt.Underlying().(*types.Array).Elem())
		st.store[reg] = ArrV{T: b.T}
		in.note("slice of a non-variable array is treated as a read-only snapshot")
		return SliceV{Reg: reg, Off: lo, Len: Sub(hi, lo), Cap: Sub(n, lo), Nil: TFalse}
	case Sc:
		if b.T.Sort == SStr {
			ln := App("slen", SInt, b.T)
			if x.High != nil {
				hi = f.evalExpr(x.High, st).(Sc).T
			} else {
				hi = ln
			}
			f.safe(st, "slice", x.Pos(), And(Le(IntLit(0), lo), Le(lo, hi), Le(hi, ln)))
			return Sc{in.substr(b.T, lo, hi)}
		}
	}
	in.unsupported(x.Pos(), "slice expression on %T", base)
	return nil
}

// arrCells maps array variable cells to the region cell that mirrors them while sliced.
func (f *Frame) sliceOfArrayCell(c *Cell, arr ArrV, lo Term, x *ast.SliceExpr, st *State) Val {
	in := f.in
	n := IntLit(arr.N)
	hi := n
	if x.High != nil {
		hi = f.evalExpr(x.High, st).(Sc).T
	}
	f.safe(st, "slice", x.Pos(), And(Le(IntLit(0), lo), Le(lo, hi), Le(hi, n)))
	// The array variable's cell doubles as the region: its content is the array term.
	_ = in
	return SliceV{Reg: c, Off: lo, Len: Sub(hi, lo), Cap: Sub(n, lo), Nil: TFalse}
}

func (f *Frame) evalCompositeLit(x *ast.CompositeLit, st *State) Val {
	in := f.in
	t := f.typeOf(x)
	switch u := t.Underlying().(type) {
	case *types.Struct:
		sv := in.zeroVal(t, f).(StructV)
		nf := make([]Val, len(sv.F))
		copy(nf, sv.F)
		for i, el := range x.Elts {
			if kv, ok := el.(*ast.KeyValueExpr); ok {
				name := kv.Key.(*ast.Ident).Name
				found := false
				for j := 0; j < u.NumFields(); j++ {
					if u.Field(j).Name() == name {
						nf[j] = f.evalAssignable(kv.Value, u.Field(j).Type(), st)
						found = true
					}
				}
				if !found {
					in.unsupported(kv.Pos(), "field %s", name)
				}
			} else {
				nf[i] = f.evalAssignable(el, u.Field(i).Type(), st)
			}
		}
		return StructV{Typ: u, F: nf}
	case *types.Array:
		z := in.zeroVal(t, f).(ArrV)
		cur := z.T
		idx := int64(0)
		for _, el := range x.Elts {
			var ve ast.Expr = el
			if kv, ok := el.(*ast.KeyValueExpr); ok {
				k := f.evalExpr(kv.Key, st).(Sc).T
				if !k.IsLit() {
					in.unsupported(kv.Pos(), "non-constant array literal key")
				}
				idx = k.lit.Int64()
				ve = kv.Value
			}
			v := f.evalAssignable(ve, u.Elem(), st)
			cur = Store(cur, IntLit(idx), in.freeze(v, u.Elem(), st, f))
			idx++
		}
		return ArrV{T: f.nameIt(st, "arrlit", cur), N: u.Len()}
	case *types.Slice:
		es := in.sortOf(u.Elem())
		reg := in.newCell("slicelit", CRegion, u.Elem())
		cur := in.D.fresh("slicelit", ArrSort(es))
		in.arrayRangeAxiom(cur, u.Elem())
		n := int64(0)
		for _, el := range x.Elts {
			if _, ok := el.(*ast.KeyValueExpr); ok {
				in.unsupported(el.Pos(), "keyed slice literal")
			}
			v := f.evalAssignable(el, u.Elem(), st)
			cur = Store(cur, IntLit(n), in.freeze(v, u.Elem(), st, f))
			n++
		}
		st.store[reg] = ArrV{T: f.nameIt(st, "slicelit", cur)}
		return SliceV{Reg: reg, Off: IntLit(0), Len: IntLit(n), Cap: IntLit(n), Nil: TFalse}
	case *types.Map:
		c := in.newCell("maplit", CMap, t)
		ks, vs := in.sortOf(u.Key()), in.sortOf(u.Elem())
		mc := MapC{Has: Term{S: fmt.Sprintf("((as const (Array %s Bool)) false)", ks), Sort: MapSortOf(ks, SBool)},
			Val: in.D.fresh("maplit_val", MapSortOf(ks, vs)), Card: IntLit(0)}
		in.mapValRangeAxiom(mc.Val, u.Elem())
		st.store[c] = mc
		mv := MapV{M: c, Nil: TFalse}
		for _, el := range x.Elts {
			kv := el.(*ast.KeyValueExpr)
			k := f.evalAssignable(kv.Key, u.Key(), st)
			v := f.evalAssignable(kv.Value, u.Elem(), st)
			f.mapStore(mv, t, k, v, st)
		}
		return mv
	}
	in.unsupported(x.Pos(), "composite literal of %s", t)
	return nil
}

// evalAssignable evaluates e for assignment to a location of type target
// (handles untyped nil and implicit interface conversion).
func (f *Frame) evalAssignable(e ast.Expr, target types.Type, st *State) Val {
	if f.isNilExpr(e) {
		return f.in.zeroVal(target, f)
	}
	if cl, ok := e.(*ast.CompositeLit); ok && cl.Type == nil {
		// elided type in nested literal
		return f.evalCompositeLit(cl, st)
	}
	v := f.evalExpr(e, st)
	return f.convertAssign(v, f.typeOf(e), target, st, e.Pos())
}

// convertAssign handles implicit conversions on assignment (concrete -> interface).
func (f *Frame) convertAssign(v Val, from, to types.Type, st *State, pos token.Pos) Val {
	if to == nil || from == nil {
		return v
	}
	to = f.resolve(to)
	if _, isIface := to.Underlying().(*types.Interface); isIface {
		if _, fromIface := from.Underlying().(*types.Interface); !fromIface {
			if _, isTP := to.(*types.TypeParam); isTP {
				return v
			}
			return f.in.toIface(v, from, to, st, f, pos)
		}
	}
	return v
}

// mapStore performs m[k] = v.
func (f *Frame) mapStore(m MapV, mt types.Type, k, v Val, st *State) {
	in := f.in
	u := mt.Underlying().(*types.Map)
	mc := in.load(st, m.M, f).(MapC)
	kt := in.freeze(k, u.Key(), st, f)
	vt := in.freeze(v, u.Elem(), st, f)
	nc := MapC{
		Has:  f.nameIt(st, "mhas", Store(mc.Has, kt, TTrue)),
		Val:  f.nameIt(st, "mval", Store(mc.Val, kt, vt)),
		Card: f.nameIt(st, "mcard", Ite(Select(mc.Has, kt), mc.Card, Add(mc.Card, IntLit(1)))),
	}
	st.store[m.M] = nc
}

// valEq is Go's == on two values of the same type.
func (in *Interp) valEq(l, r Val, st *State, f *Frame, pos token.Pos) Term {
	switch a := l.(type) {
	case Sc:
		b, ok := r.(Sc)
		if !ok {
			break
		}
		if a.T.Sort == SStr && st != nil {
			st.assume(strExtAxiom(a.T, b.T))
		}
		return Eq(a.T, b.T)
	case ArrV:
		b := r.(ArrV)
		n := a.N
		if n == 0 {
			n = b.N
		}
		if n > 0 && n <= 64 {
			// Go compares the N elements; SMT array equality would also compare unused indices
			var cs []Term
			for i := int64(0); i < n; i++ {
				cs = append(cs, Eq(Select(a.T, IntLit(i)), Select(b.T, IntLit(i))))
			}
			return And(cs...)
		}
		return Eq(a.T, b.T)
	case StructV:
		b := r.(StructV)
		var cs []Term
		for i := range a.F {
			if isSyncType(a.Typ.Field(i).Type()) {
				continue
			}
			cs = append(cs, in.valEq(a.F[i], b.F[i], st, f, pos))
		}
		return And(cs...)
	case PtrV:
		b := r.(PtrV)
		if a.To == b.To {
			return Eq(a.Nil, b.Nil)
		}
		return Eq(in.refOf(a), in.refOf(b))
	}
	in.unsupported(pos, "== on %T", l)
	return Term{}
}

func (in *Interp) strConcat(a, b Term) Term {
	return App("sconcat", SStr, a, b)
}

func (in *Interp) substr(s, lo, hi Term) Term {
	if lo.IsLit() && lo.lit.Sign() == 0 && hi.S == App("slen", SInt, s).S {
		return s
	}
	return App("mkstr", SStr, App("sarr", ArrSort(SInt), s), lo, Sub(hi, lo))
}

// toIface boxes a concrete value into an interface value.
func (in *Interp) toIface(v Val, from, to types.Type, st *State, f *Frame, pos token.Pos) Val {
	if _, isPtr := v.(PtrV); isPtr && !isErrorType(to) {
		// an interface holding a pointer is represented by the pointer itself (the dynamic
		// type is not needed: interface calls go through interface contracts); contracts can
		// then talk about the object behind the interface.  Boxed only when stored in containers.
		return v
	}
	if isErrorType(to) {
		if sc, ok := v.(Sc); ok && sc.T.Sort == SErr {
			return v
		}
		// concrete error type boxed into error: non-nil opaque error
		e := in.D.fresh("boxederr", SErr)
		st.assume(Not(Eq(e, in.errNil())))
		return Sc{e}
	}
	in.D.declareSort("Iface")
	s := in.sortOf(from)
	fn := "box_" + sanitize(s)
	in.D.declareFun(fn, []string{s}, "Iface")
	t := in.freeze(v, from, st, f)
	r := App(fn, "Iface", t)
	in.D.declareOnce("iface_nil", "(declare-const iface_nil Iface)")
	if _, isPtr := from.Underlying().(*types.Pointer); !isPtr {
		st.assume(Not(Eq(r, Term{S: "iface_nil", Sort: "Iface"})))
	}
	return Sc{r}
}
