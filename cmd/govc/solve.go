package main

import (
	"bytes"
	"context"
	"fmt"
	"os"
	"os/exec"
	"path/filepath"
	"strings"
	"sync"
	"time"
)

type SolveResult struct {
	Status  string // "unsat", "sat", "unknown"
	Solver  string
	TimeS   float64
	Model   string
	Outputs map[string]string // solver -> first line(s)
	File    string
}

type solverSpec struct {
	name string
	args func(file string, timeoutS int, seed int) []string
}

var solverSpecs = []solverSpec{
	{"z3-5.1.0", func(file string, t, seed int) []string {
		return []string{"z3-new", fmt.Sprintf("-T:%d", t), fmt.Sprintf("smt.random_seed=%d", seed), file}
	}},
	{"z3-4.8.12", func(file string, t, seed int) []string {
		return []string{"z3", fmt.Sprintf("-T:%d", t), fmt.Sprintf("smt.random_seed=%d", seed), file}
	}},
	{"cvc5-1.0.3", func(file string, t, seed int) []string {
		return []string{"cvc5", fmt.Sprintf("--tlimit=%d", t*1000), fmt.Sprintf("--seed=%d", seed), "--full-saturate-quant", file}
	}},
}

func buildSMT(rep *FuncReport, o *Obligation, withModel bool) string {
	var b strings.Builder
	b.WriteString("(set-option :produce-models true)\n(set-logic ALL)\n")
	// vacuity / cover checks (expected sat) ignore quantified hypotheses: they are
	// range facts and definitional axioms that cannot make a satisfiable
	// quantifier-free context inconsistent, and they keep solvers from answering sat.
	skipQ := o.Expect == "sat" || o.NoQuant
	for _, l := range strings.Split(prelude, "\n") {
		if skipQ && strings.HasPrefix(l, "(assert (forall") {
			continue
		}
		b.WriteString(l)
		b.WriteString("\n")
	}
	for _, l := range rep.Decls {
		if skipQ && strings.HasPrefix(l, "(assert (forall") {
			continue
		}
		b.WriteString(l)
		b.WriteString("\n")
	}
	for _, e := range o.Extra {
		b.WriteString(e)
		b.WriteString("\n")
	}
	for _, g := range rep.Global {
		if skipQ && strings.HasPrefix(g.S, "(forall") {
			continue
		}
		fmt.Fprintf(&b, "(assert %s)\n", g.S)
	}
	for _, h := range o.Hyps {
		if skipQ && strings.Contains(h.S, "(forall") {
			continue
		}
		fmt.Fprintf(&b, "(assert %s)\n", h.S)
	}
	fmt.Fprintf(&b, "(assert (not %s))\n", o.Goal.S)
	b.WriteString("(check-sat)\n")
	if withModel {
		if len(o.Inputs) > 0 {
			b.WriteString("(get-value (")
			for _, in := range o.Inputs {
				if in.Sort == SInt || in.Sort == SBool {
					b.WriteString(in.Sym + " ")
				}
			}
			b.WriteString("))\n")
		}
		b.WriteString("(get-model)\n")
	}
	return b.String()
}

func runSolver(ctx context.Context, spec solverSpec, file string, timeoutS, seed int) (status string, out string, dur float64) {
	args := spec.args(file, timeoutS, seed)
	cctx, cancel := context.WithTimeout(ctx, time.Duration(timeoutS+2)*time.Second)
	defer cancel()
	cmd := exec.CommandContext(cctx, args[0], args[1:]...)
	var buf bytes.Buffer
	cmd.Stdout = &buf
	cmd.Stderr = &buf
	t0 := time.Now()
	_ = cmd.Run()
	dur = time.Since(t0).Seconds()
	out = buf.String()
	first := strings.TrimSpace(out)
	if i := strings.Index(first, "\n"); i >= 0 {
		first = first[:i]
	}
	switch first {
	case "unsat", "sat":
		return first, out, dur
	}
	if strings.Contains(out, "(error") && !strings.Contains(out, "timeout") {
		return "error", out, dur
	}
	return "unknown", out, dur
}

// Solve races the portfolio on one obligation.
func Solve(rep *FuncReport, o *Obligation, dir string, idx int, timeoutS, seed int, need int) *SolveResult {
	res := &SolveResult{Outputs: map[string]string{}}
	if o.Derived {
		res.Status = "unsat"
		res.Solver = "syntactic"
		return res
	}
	file := filepath.Join(dir, fmt.Sprintf("o%04d.smt2", idx))
	if o.Expect == "sat" && timeoutS > 4 {
		timeoutS = 4
	}
	smt := buildSMT(rep, o, false)
	if len(smt) > 4<<20 {
		res.Status = "unknown"
		res.Outputs["govc"] = fmt.Sprintf("obligation too large (%d bytes)", len(smt))
		return res
	}
	if err := os.WriteFile(file, []byte(smt), 0o644); err != nil {
		res.Status = "unknown"
		res.Outputs["govc"] = err.Error()
		return res
	}
	res.File = file
	ctx, cancel := context.WithCancel(context.Background())
	defer cancel()
	type r struct {
		solver, status, out string
		dur                 float64
	}
	ch := make(chan r, len(solverSpecs))
	for _, sp := range solverSpecs {
		sp := sp
		go func() {
			s, out, d := runSolver(ctx, sp, file, timeoutS, seed)
			ch <- r{sp.name, s, out, d}
		}()
	}
	t0 := time.Now()
	definite := 0
	for i := 0; i < len(solverSpecs); i++ {
		x := <-ch
		res.Outputs[x.solver] = trunc(strings.TrimSpace(x.out), 300)
		if x.status == "unsat" || x.status == "sat" {
			if res.Status != "" && res.Status != x.status && (res.Status == "sat" || res.Status == "unsat") {
				res.Status = "conflict"
				res.Solver += "+" + x.solver
				break
			}
			if res.Status == "" || res.Status == "unknown" {
				res.Status = x.status
				res.Solver = x.solver
				res.TimeS = x.dur
			} else {
				res.Solver += "+" + x.solver
			}
			definite++
			if definite >= need {
				break
			}
		} else if x.status == "error" && (res.Status == "" || res.Status == "error") {
			res.Status = "error"
		} else if res.Status == "" || res.Status == "error" {
			res.Status = "unknown"
		}
	}
	cancel()
	if res.TimeS == 0 {
		res.TimeS = time.Since(t0).Seconds()
	}
	if res.Status == "sat" && o.Expect != "sat" {
		// fetch a model from a z3 (best model printer)
		mfile := filepath.Join(dir, fmt.Sprintf("o%04d.model.smt2", idx))
		_ = os.WriteFile(mfile, []byte(buildSMT(rep, o, true)), 0o644)
		for _, sp := range []solverSpec{solverSpecs[0], solverSpecs[1], solverSpecs[2]} {
			s, out, _ := runSolver(context.Background(), sp, mfile, timeoutS, seed)
			if s == "sat" {
				res.Model = trunc(out, 20000)
				break
			}
		}
	}
	return res
}

// SolveAll discharges all obligations of a set of reports in parallel.
func SolveAll(reps []*FuncReport, dir string, timeoutS, seed, need, workers int) {
	type job struct {
		rep *FuncReport
		o   *Obligation
		idx int
	}
	var jobs []job
	n := 0
	for _, rep := range reps {
		for _, o := range rep.Obligations {
			jobs = append(jobs, job{rep, o, n})
			n++
		}
	}
	var wg sync.WaitGroup
	ch := make(chan job)
	for w := 0; w < workers; w++ {
		wg.Add(1)
		go func() {
			defer wg.Done()
			for j := range ch {
				j.o.Result = Solve(j.rep, j.o, dir, j.idx, timeoutS, seed, need)
			}
		}()
	}
	for _, j := range jobs {
		ch <- j
	}
	close(ch)
	wg.Wait()
}
