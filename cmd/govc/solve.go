package main

import (
	"bytes"
	"context"
	"fmt"
	"os"
	"os/exec"
	"path/filepath"
	"strings"
	"sync"
	"time"
)

type SolveResult struct {
	Status  string // "unsat", "sat", "unknown"
	Solver  string
	TimeS   float64
	Model   string
	Outputs map[string]string // solver -> first line(s)
	File    string
}

type solverSpec struct {
	name string
	args func(file string, timeoutS int, seed int) []string
}

var solverSpecs = []solverSpec{
	{"z3-5.1.0", func(file string, t, seed int) []string {
		return []string{"z3-new", fmt.Sprintf("-T:%d", t), fmt.Sprintf("smt.random_seed=%d", seed), file}
	}},
	{"z3-4.8.12", func(file string, t, seed int) []string {
		return []string{"z3", fmt.Sprintf("-T:%d", t), fmt.Sprintf("smt.random_seed=%d", seed), file}
	}},
	{"cvc5-1.0.3", func(file string, t, seed int) []string {
		return []string{"cvc5", fmt.Sprintf("--tlimit=%d", t*1000), fmt.Sprintf("--seed=%d", seed), "--full-saturate-quant", file}
	}},
}

func buildSMT(rep *FuncReport, o *Obligation, withModel bool) string {
	var b strings.Builder
	b.WriteString("(set-option :produce-models true)\n(set-logic ALL)\n")
	// vacuity / cover checks (expected sat) ignore quantified hypotheses: they are
	// range facts and definitional axioms that cannot make a satisfiable
	// quantifier-free context inconsistent, and they keep solvers from answering sat.
	skipQ := o.Expect == "sat" || o.NoQuant
	for _, l := range strings.Split(prelude, "\n") {
		if skipQ && strings.HasPrefix(l, "(assert (forall") {
			continue
		}
		b.WriteString(l)
		b.WriteString("\n")
	}
	for _, l := range rep.Decls {
		if o.NoQuant && rep.D != nil {
			if d, ok := rep.D.defines[l]; ok {
				b.WriteString(d)
				b.WriteString("\n")
				continue
			}
			if rep.D.declSkip[l] {
				continue
			}
		}
		if skipQ && strings.HasPrefix(l, "(assert (forall") {
			continue
		}
		if rep.D != nil && rep.Reveal != nil {
			// definitions of opaque spec functions are hidden unless revealed
			if fn, ok := rep.D.opaqueAxiom[l]; ok && !rep.Reveal[fn] && !rep.Reveal["*"] && !((o.Kind == "assert" || strings.HasSuffix(o.Name, ".entry")) && rep.Reveal["assert:"+fn]) {
				continue
			}
		}
		b.WriteString(l)
		b.WriteString("\n")
	}
	for _, e := range o.Extra {
		b.WriteString(e)
		b.WriteString("\n")
	}
	keepG, keepH := coneOfInfluence(rep, o)
	for i, g := range rep.Global {
		if skipQ && strings.HasPrefix(g.S, "(forall") {
			if e, ok := expandBounded(g.S); ok && o.NoQuant && !strings.Contains(e, "(forall") {
				fmt.Fprintf(&b, "(assert %s)\n", e)
			}
			continue
		}
		if keepG != nil && !keepG[i] {
			continue
		}
		fmt.Fprintf(&b, "(assert %s)\n", g.S)
	}
	for i, h := range o.Hyps {
		if skipQ && strings.Contains(h.S, "(forall") {
			if e, ok := expandBounded(h.S); ok && o.NoQuant && !strings.Contains(e, "(forall") {
				fmt.Fprintf(&b, "(assert %s)\n", e)
			}
			continue
		}
		if keepH != nil && !keepH[i] {
			continue
		}
		if g := hypGroup(h.S); g != "" && g != sanitize(o.Group) {
			continue // a fact of another proof group
		}
		fmt.Fprintf(&b, "(assert %s)\n", h.S)
	}
	fmt.Fprintf(&b, "(assert (not %s))\n", o.Goal.S)
	b.WriteString("(check-sat)\n")
	if withModel {
		if len(o.Inputs) > 0 {
			b.WriteString("(get-value (")
			for _, in := range o.Inputs {
				if in.Sort == SInt || in.Sort == SBool {
					b.WriteString(in.Sym + " ")
				}
			}
			b.WriteString("))\n")
		}
		b.WriteString("(get-model)\n")
	}
	return b.String()
}

func runSolver(ctx context.Context, spec solverSpec, file string, timeoutS, seed int) (status string, out string, dur float64) {
	args := spec.args(file, timeoutS, seed)
	cctx, cancel := context.WithTimeout(ctx, time.Duration(timeoutS+2)*time.Second)
	defer cancel()
	cmd := exec.CommandContext(cctx, args[0], args[1:]...)
	var buf bytes.Buffer
	cmd.Stdout = &buf
	cmd.Stderr = &buf
	t0 := time.Now()
	_ = cmd.Run()
	dur = time.Since(t0).Seconds()
	out = buf.String()
	first := strings.TrimSpace(out)
	if i := strings.Index(first, "\n"); i >= 0 {
		first = first[:i]
	}
	switch first {
	case "unsat", "sat":
		return first, out, dur
	}
	if strings.Contains(out, "(error") && !strings.Contains(out, "timeout") {
		return "error", out, dur
	}
	return "unknown", out, dur
}

// Solve discharges one obligation: the full context first; if that is undecided, a
// second attempt with the focused hypothesis selection (dropping hypotheses is sound).
func Solve(rep *FuncReport, o *Obligation, dir string, idx int, timeoutS, seed int, need int) *SolveResult {
	res := solveOnce(rep, o, dir, idx, timeoutS, seed, need)
	if res.Status == "unknown" && o.Expect != "sat" && !o.Derived {
		o2 := *o
		o2.Focus = true
		r2 := solveOnce(rep, &o2, dir, idx+100000, timeoutS, seed, need)
		if r2.Status == "unsat" {
			r2.Solver += "(focused)"
			r2.TimeS += res.TimeS
			return r2
		}
	}
	return res
}

func solveOnce(rep *FuncReport, o *Obligation, dir string, idx int, timeoutS, seed int, need int) *SolveResult {
	res := &SolveResult{Outputs: map[string]string{}}
	if o.Derived {
		res.Status = "unsat"
		res.Solver = "syntactic"
		return res
	}
	file := filepath.Join(dir, fmt.Sprintf("o%04d.smt2", idx))
	if o.Expect == "sat" && timeoutS > 4 {
		timeoutS = 4
	}
	smt := buildSMT(rep, o, false)
	if len(smt) > 4<<20 {
		res.Status = "unknown"
		res.Outputs["govc"] = fmt.Sprintf("obligation too large (%d bytes)", len(smt))
		return res
	}
	if err := os.WriteFile(file, []byte(smt), 0o644); err != nil {
		res.Status = "unknown"
		res.Outputs["govc"] = err.Error()
		return res
	}
	res.File = file
	ctx, cancel := context.WithCancel(context.Background())
	defer cancel()
	type r struct {
		solver, status, out string
		dur                 float64
	}
	ch := make(chan r, len(solverSpecs))
	for _, sp := range solverSpecs {
		sp := sp
		go func() {
			s, out, d := runSolver(ctx, sp, file, timeoutS, seed)
			ch <- r{sp.name, s, out, d}
		}()
	}
	t0 := time.Now()
	definite := 0
	for i := 0; i < len(solverSpecs); i++ {
		x := <-ch
		res.Outputs[x.solver] = trunc(strings.TrimSpace(x.out), 300)
		if x.status == "unsat" || x.status == "sat" {
			if res.Status != "" && res.Status != x.status && (res.Status == "sat" || res.Status == "unsat") {
				res.Status = "conflict"
				res.Solver += "+" + x.solver
				break
			}
			if res.Status == "" || res.Status == "unknown" || res.Status == "error" {
				// (a solver that rejects the fragment -- e.g. cvc5 on array-indexed arrays -- abstains)
				res.Status = x.status
				res.Solver = x.solver
				res.TimeS = x.dur
			} else {
				res.Solver += "+" + x.solver
			}
			definite++
			if definite >= need {
				break
			}
		} else if x.status == "error" && (res.Status == "" || res.Status == "error") {
			res.Status = "error"
		} else if res.Status == "" || res.Status == "error" {
			res.Status = "unknown"
		}
	}
	cancel()
	if res.TimeS == 0 {
		res.TimeS = time.Since(t0).Seconds()
	}
	if res.Status == "sat" && o.Expect != "sat" {
		// fetch a model from a z3 (best model printer)
		mfile := filepath.Join(dir, fmt.Sprintf("o%04d.model.smt2", idx))
		_ = os.WriteFile(mfile, []byte(buildSMT(rep, o, true)), 0o644)
		for _, sp := range []solverSpec{solverSpecs[0], solverSpecs[1], solverSpecs[2]} {
			s, out, _ := runSolver(context.Background(), sp, mfile, timeoutS, seed)
			if s == "sat" {
				res.Model = trunc(out, 20000)
				break
			}
		}
	}
	return res
}

// SolveAll discharges all obligations of a set of reports in parallel.
// knownOpen: obligation base names recorded as open known findings of the property being checked
var knownOpen = map[string]bool{}

func SolveAll(reps []*FuncReport, dir string, timeoutS, seed, need, workers int) {
	type job struct {
		rep *FuncReport
		o   *Obligation
		idx int
	}
	var jobs []job
	n := 0
	for _, rep := range reps {
		for _, o := range rep.Obligations {
			jobs = append(jobs, job{rep, o, n})
			n++
		}
	}
	var wg sync.WaitGroup
	ch := make(chan job)
	for w := 0; w < workers; w++ {
		wg.Add(1)
		go func() {
			defer wg.Done()
			for j := range ch {
				if knownOpen[oblBase(j.o.Name)] {
					// an obligation recorded as an open known finding is expected to fail: a short
					// attempt decides whether it still does (it is reported either way, never hidden)
					j.o.Result = Solve(j.rep, j.o, dir, j.idx, 4, seed, need)
					continue
				}
				j.o.Result = Solve(j.rep, j.o, dir, j.idx, timeoutS, seed, need)
			}
		}()
	}
	for _, j := range jobs {
		ch <- j
	}
	close(ch)
	wg.Wait()
	// Second pass: a few undecided obligations get a long timeout with little
	// contention (guards against false alarms on a loaded machine).  Many undecided
	// obligations mean the code really changed; they are not retried.
	var retry []job
	for _, j := range jobs {
		if j.o.Result != nil && j.o.Result.Status == "unknown" && j.o.Expect != "sat" && !knownOpen[oblBase(j.o.Name)] {
			retry = append(retry, j)
		}
	}
	if len(retry) == 0 || len(retry) > 3 {
		return
	}
	var wg2 sync.WaitGroup
	ch2 := make(chan job)
	for w := 0; w < 2; w++ {
		wg2.Add(1)
		go func() {
			defer wg2.Done()
			for j := range ch2 {
				first := j.o.Result
				r := Solve(j.rep, j.o, dir, j.idx+200000, timeoutS*3, seed, need)
				r.TimeS += first.TimeS
				if r.Status == "unsat" {
					r.Solver += "(retry)"
				}
				j.o.Result = r
			}
		}()
	}
	for _, j := range retry {
		ch2 <- j
	}
	close(ch2)
	wg2.Wait()
}

// symbolsOf extracts the user-declared symbols (those containing '!' or with the
// uf_/sf_/err_/ref! prefixes) occurring in an SMT term.
func symbolsOf(s string) []string {
	var out []string
	i := 0
	for i < len(s) {
		c := s[i]
		if c == '(' || c == ')' || c == ' ' || c == '\n' {
			i++
			continue
		}
		j := i
		for j < len(s) && s[j] != '(' && s[j] != ')' && s[j] != ' ' && s[j] != '\n' {
			j++
		}
		tok := s[i:j]
		if strings.Contains(tok, "!") || strings.HasPrefix(tok, "uf_") || strings.HasPrefix(tok, "sf_") || strings.HasPrefix(tok, "err_") {
			out = append(out, tok)
		}
		i = j
	}
	return out
}

// coneOfInfluence keeps only the hypotheses that (transitively) share a symbol with
// the goal.  Dropping hypotheses is sound for proving (it only weakens the context);
// it keeps unrelated nonlinear facts of a path away from linear goals.  For
// expected-sat (vacuity) checks everything is kept.
func coneOfInfluence(rep *FuncReport, o *Obligation) (keepG, keepH []bool) {
	if o.Expect == "sat" || os.Getenv("GOVC_NO_COI") != "" {
		return nil, nil
	}
	if len(symbolsOf(o.Goal.S)) == 0 {
		return nil, nil // e.g. goal `false` (dead code): every hypothesis matters
	}
	if o.Focus {
		return focusedHyps(rep, o)
	}
	rel := map[string]bool{}
	for _, sy := range symbolsOf(o.Goal.S) {
		rel[sy] = true
	}
	for _, e := range o.Extra {
		for _, sy := range symbolsOf(e) {
			rel[sy] = true
		}
	}
	gs := make([][]string, len(rep.Global))
	for i, g := range rep.Global {
		gs[i] = symbolsOf(g.S)
	}
	hs := make([][]string, len(o.Hyps))
	for i, h := range o.Hyps {
		hs[i] = symbolsOf(h.S)
	}
	keepG = make([]bool, len(rep.Global))
	keepH = make([]bool, len(o.Hyps))
	touch := func(syms []string) bool {
		for _, sy := range syms {
			if rel[sy] {
				return true
			}
		}
		return false
	}
	for changed := true; changed; {
		changed = false
		for i := range gs {
			if !keepG[i] && (len(gs[i]) == 0 || touch(gs[i])) {
				keepG[i] = true
				changed = true
				for _, sy := range gs[i] {
					rel[sy] = true
				}
			}
		}
		for i := range hs {
			if !keepH[i] && (len(hs[i]) == 0 || touch(hs[i])) {
				keepH[i] = true
				changed = true
				for _, sy := range hs[i] {
					rel[sy] = true
				}
			}
		}
	}
	return keepG, keepH
}

// expandBounded rewrites (forall ((v Int)) (=> (and ... (<= L v) ... (< v H) ...) body))
// with literal bounds and H-L <= 64 into the conjunction of its instances.  Used only
// in counterexample-search mode (quantified hypotheses would otherwise be dropped).
func expandBounded(term string) (string, bool) {
	ps := parseSx(term)
	if len(ps) != 1 {
		return "", false
	}
	x := ps[0]
	if x.list == nil || len(x.list) != 3 || x.list[0].atom != "forall" {
		return "", false
	}
	binders := x.list[1]
	if binders.list == nil || len(binders.list) != 1 || len(binders.list[0].list) != 2 || binders.list[0].list[1].atom != "Int" {
		return "", false
	}
	v := binders.list[0].list[0].atom
	body := x.list[2]
	if body.list != nil && len(body.list) >= 2 && body.list[0].atom == "!" {
		body = body.list[1]
	}
	if body.list == nil || len(body.list) != 3 || body.list[0].atom != "=>" {
		return "", false
	}
	var conj []*sx
	var flat func(g *sx)
	flat = func(g *sx) {
		if g.list != nil && len(g.list) > 0 && g.list[0].atom == "and" {
			for _, c := range g.list[1:] {
				flat(c)
			}
			return
		}
		conj = append(conj, g)
	}
	flat(body.list[1])
	var lo, hi *int64
	for _, c := range conj {
		if c.list == nil || len(c.list) != 3 {
			continue
		}
		op, a, b := c.list[0].atom, c.list[1], c.list[2]
		if op == "<=" && b.atom == v {
			if n, ok := sxInt(a); ok && n.IsInt64() {
				t := n.Int64()
				lo = &t
			}
		}
		if op == "<" && a.atom == v {
			if n, ok := sxInt(b); ok && n.IsInt64() {
				t := n.Int64()
				hi = &t
			}
		}
		if op == "<=" && a.atom == v {
			if n, ok := sxInt(b); ok && n.IsInt64() {
				t := n.Int64() + 1
				hi = &t
			}
		}
	}
	if lo == nil || hi == nil || *hi-*lo > 64 || *hi <= *lo {
		return "", false
	}
	var subst func(n *sx, val string) string
	subst = func(n *sx, val string) string {
		if n.list == nil {
			if n.atom == v {
				return val
			}
			return n.atom
		}
		parts := make([]string, len(n.list))
		for i, e := range n.list {
			parts[i] = subst(e, val)
		}
		return "(" + strings.Join(parts, " ") + ")"
	}
	var insts []string
	for i := *lo; i < *hi; i++ {
		val := fmt.Sprint(i)
		if i < 0 {
			val = fmt.Sprintf("(- %d)", -i)
		}
		inst := subst(body, val)
		// nested bounded quantifiers
		insts = append(insts, expandNested(inst))
	}
	return "(and " + strings.Join(insts, " ") + ")", true
}

// expandNested expands bounded foralls occurring at the top of an implication body.
func expandNested(t string) string {
	if !strings.Contains(t, "(forall") {
		return t
	}
	if strings.HasPrefix(t, "(forall") {
		if e, ok := expandBounded(t); ok {
			return e
		}
	}
	return t
}

// focusedHyps: a tighter (still sound) hypothesis selection used as a second attempt.
// The relevant symbol set is the goal's symbols closed under SSA definitions
// `(= sym expr)`; a hypothesis is kept iff it mentions a relevant symbol, but
// (unlike the transitive cone) kept hypotheses do not make further symbols relevant.
func focusedHyps(rep *FuncReport, o *Obligation) (keepG, keepH []bool) {
	rel := map[string]bool{}
	for _, sy := range symbolsOf(o.Goal.S) {
		rel[sy] = true
	}
	defOf := func(s string) (string, bool) {
		if !strings.HasPrefix(s, "(= ") {
			return "", false
		}
		rest := s[3:]
		i := strings.IndexAny(rest, " )")
		if i <= 0 || strings.HasPrefix(rest, "(") {
			return "", false
		}
		return rest[:i], true
	}
	all := make([]string, 0, len(rep.Global)+len(o.Hyps))
	for _, g := range rep.Global {
		all = append(all, g.S)
	}
	for _, h := range o.Hyps {
		all = append(all, h.S)
	}
	for changed := true; changed; {
		changed = false
		for _, h := range all {
			if sym, ok := defOf(h); ok && rel[sym] {
				for _, sy := range symbolsOf(h) {
					if !rel[sy] {
						rel[sy] = true
						changed = true
					}
				}
			}
		}
	}
	keep := func(h string) bool {
		syms := symbolsOf(h)
		if len(syms) == 0 {
			return true
		}
		for _, sy := range syms {
			if rel[sy] && !strings.HasPrefix(sy, "uf_") && !strings.HasPrefix(sy, "sf_") {
				return true
			}
		}
		return false
	}
	keepG = make([]bool, len(rep.Global))
	keepH = make([]bool, len(o.Hyps))
	for i, g := range rep.Global {
		keepG[i] = keep(g.S)
	}
	for i, h := range o.Hyps {
		keepH[i] = keep(h.S)
	}
	return keepG, keepH
}
