package main

// Contract files: comment-only Go files whose `//@` lines carry contracts.
// This file holds the contract data model, the line-level parser and the
// Pratt parser for spec expressions.

import (
	"unicode"
	"fmt"
	"go/scanner"
	"go/token"
	"math/big"
	"os"
	"strconv"
	"strings"
)

// ---------- spec expression AST ----------

type SExpr interface{}

type (
	SIdent   struct{ Name string }
	SIntLit  struct{ V *big.Int }
	SStrLit  struct{ V string }
	SBoolLit struct{ V bool }
	SBin     struct {
		Op   string
		L, R SExpr
	}
	SUn struct {
		Op string
		X  SExpr
	}
	SCall struct {
		Fun  SExpr
		Args []SExpr
	}
	SIndex struct{ X, I SExpr }
	SSlice struct{ X, Lo, Hi SExpr }
	SSel   struct {
		X    SExpr
		Name string
	}
	SBinder struct {
		Name string
		Type string
	}
	SQuant struct {
		Forall bool
		Vars   []SBinder
		Body   SExpr
	}
)

// ---------- contract model ----------

type LoopSpec struct {
	Summarize  bool // preservation obligations use the loop asserts as the summary of the body
	Asserts    []Clause
	Invariants []Clause
	Unroll     int // >0: unroll at most this many iterations, with an unwinding assertion
	Modifies   []SExpr
}

type Clause struct {
	Props []string // `ensures @C07 @C11 <expr>`: proved only under these properties, never assumed by callers
	Text string
	E    SExpr
	Line int
	File string
}

type LetDef struct {
	Name string
	E    SExpr
}

type Contract struct {
	Name     string // "Func", "(*T).M", "T.M"
	Pkg      string // package path the file belongs to
	Props    []string
	Requires []Clause
	Ensures  []Clause
	Modifies []SExpr
	Lets     []LetDef
	Loops    map[int]*LoopSpec
	Snapshots map[int][]string // ghost snapshots of the whole state taken after the statement containing call N
	Asserts  map[int][]Clause // by static call ordinal: proved, then assumed, after the statement containing the call
	NamedOrd  map[string]int // callee name -> pseudo ordinal (negative) for `at call <name> …`
	Pure     bool
	Trusted  bool // contract assumed, body not verified (listed in evidence)
	Inline   bool
	NoFrame  bool
	Ghosts   []GhostDecl
	File     string
	Line     int
	Opts     map[string]string
	Reveal   []string // opaque spec functions whose definitions this function's proof may use
	RevealAsserts []string
	DeadReturns []int // source-order ordinals of return statements that must be unreachable
	Uses     []string // lemmas assumed as hypotheses in this function's obligations
}

type GhostDecl struct {
	Name string
	Type string
	Init SExpr
}

type SpecFunc struct {
	Name   string
	Params []SBinder
	Result string
	Body   SExpr // nil => uninterpreted
	Pkg    string
	Rec    bool // recursive definition: emitted as define-fun-rec (always visible, unfolded by the solver on demand)
	Opaque bool // declared as a function symbol with a definitional axiom instead of being macro-expanded
}

type Lemma struct {
	Name  string
	Props []string
	E     SExpr
	Text  string
	Reveal []string
	Induct string   // induction variable (natural-number induction: base 0, step i -> i+1)
	Uses   []string // other lemmas (proved separately) assumed as hypotheses
	Axiom bool // trusted, not proved
	Pkg   string
	File  string
	Line  int
	// MustFail lemmas are vacuity/selftest canaries
}

type TypeSpec struct {
	Name      string
	Opaque    bool
	Valuelike bool
	Invariant []Clause
	Pkg       string
}

type ContractFile struct {
	Path      string
	Pkg       string
	Contracts []*Contract
	SpecFuncs []*SpecFunc
	Lemmas    []*Lemma
	Types     []*TypeSpec
}

var clauseKeywords = map[string]bool{
	"func": true, "requires": true, "ensures": true, "modifies": true, "loop": true,
	"let": true, "pure": true, "spec": true, "lemma": true, "axiom": true, "type": true,
	"dead": true, "uses": true, "reveal": true, "reveal-asserts": true, "at": true, "trusted": true, "inline": true, "ghost": true, "props": true, "noframe": true, "opt": true,
}

// ParseContractFile reads the //@ lines of a file.
func ParseContractFile(path, pkgPath string) (*ContractFile, error) {
	data, err := os.ReadFile(path)
	if err != nil {
		return nil, err
	}
	cf := &ContractFile{Path: path, Pkg: pkgPath}
	type rawClause struct {
		text string
		line int
	}
	var clauses []rawClause
	for i, line := range strings.Split(string(data), "\n") {
		t := strings.TrimSpace(line)
		if !strings.HasPrefix(t, "//@") {
			continue
		}
		body := strings.TrimSpace(strings.TrimPrefix(t, "//@"))
		if body == "" {
			continue
		}
		if idx := strings.Index(body, " //"); idx >= 0 { // trailing comment
			body = strings.TrimSpace(body[:idx])
		}
		first := body
		if j := strings.IndexAny(body, " \t"); j >= 0 {
			first = body[:j]
		}
		if clauseKeywords[first] {
			clauses = append(clauses, rawClause{body, i + 1})
		} else if len(clauses) > 0 {
			clauses[len(clauses)-1].text += " " + body
		} else {
			return nil, fmt.Errorf("%s:%d: continuation without clause", path, i+1)
		}
	}
	var cur *Contract
	for _, rc := range clauses {
		kw, rest := splitWord(rc.text)
		fail := func(err error) error { return fmt.Errorf("%s:%d: %v (in %q)", path, rc.line, err, rc.text) }
		switch kw {
		case "func":
			name, r2 := splitWord(rest)
			cur = &Contract{Name: name, Pkg: pkgPath, Loops: map[int]*LoopSpec{}, File: path, Line: rc.line, Opts: map[string]string{}}
			k2, r3 := splitWord(r2)
			if k2 == "props" {
				cur.Props = strings.Fields(r3)
			} else if k2 != "" {
				return nil, fail(fmt.Errorf("unexpected %q after func name", k2))
			}
			cf.Contracts = append(cf.Contracts, cur)
		case "props":
			if cur == nil {
				return nil, fail(fmt.Errorf("props outside func"))
			}
			cur.Props = append(cur.Props, strings.Fields(rest)...)
		case "requires", "ensures":
			if cur == nil {
				return nil, fail(fmt.Errorf("%s outside func", kw))
			}
			var cprops []string
			for strings.HasPrefix(strings.TrimSpace(rest), "@") {
				w1, r1 := splitWord(strings.TrimSpace(rest))
				cprops = append(cprops, strings.TrimPrefix(w1, "@"))
				rest = r1
			}
			e, err := ParseSpecExpr(rest)
			if err != nil {
				return nil, fail(err)
			}
			c := Clause{Text: rest, E: e, Line: rc.line, File: path, Props: cprops}
			if kw == "requires" {
				cur.Requires = append(cur.Requires, c)
			} else {
				cur.Ensures = append(cur.Ensures, c)
			}
		case "modifies":
			if cur == nil {
				return nil, fail(fmt.Errorf("modifies outside func"))
			}
			es, err := parseExprList(rest)
			if err != nil {
				return nil, fail(err)
			}
			cur.Modifies = append(cur.Modifies, es...)
		case "let":
			if cur == nil {
				return nil, fail(fmt.Errorf("let outside func"))
			}
			i := strings.Index(rest, "=")
			if i < 0 {
				return nil, fail(fmt.Errorf("let without ="))
			}
			e, err := ParseSpecExpr(rest[i+1:])
			if err != nil {
				return nil, fail(err)
			}
			cur.Lets = append(cur.Lets, LetDef{strings.TrimSpace(rest[:i]), e})
		case "reveal":
			cur.Reveal = append(cur.Reveal, strings.Fields(strings.ReplaceAll(rest, ",", " "))...)
		case "dead":
			// dead return N : the N-th return statement (source order) is unreachable
			w1, r1 := splitWord(rest)
			n, err := strconv.Atoi(strings.TrimSpace(r1))
			if w1 != "return" || err != nil {
				return nil, fail(fmt.Errorf("expected: dead return N"))
			}
			cur.DeadReturns = append(cur.DeadReturns, n)
		case "uses":
			cur.Uses = append(cur.Uses, strings.Fields(strings.ReplaceAll(rest, ",", " "))...)
		case "reveal-asserts":
			// definitions visible only to `assert` obligations (staging lemmas), hidden from
			// invariant-preservation and postcondition obligations
			cur.RevealAsserts = append(cur.RevealAsserts, strings.Fields(strings.ReplaceAll(rest, ",", " "))...)
		case "pure":
			cur.Pure = true
		case "trusted":
			cur.Trusted = true
		case "inline":
			cur.Inline = true
		case "noframe":
			cur.NoFrame = true
		case "opt":
			k, v := splitWord(rest)
			cur.Opts[k] = v
		case "ghost":
			// ghost name type [= init]
			name, r2 := splitWord(rest)
			typ, r3 := splitWord(r2)
			g := GhostDecl{Name: name, Type: typ}
			r3 = strings.TrimSpace(r3)
			if strings.HasPrefix(r3, "=") {
				e, err := ParseSpecExpr(r3[1:])
				if err != nil {
					return nil, fail(err)
				}
				g.Init = e
			}
			cur.Ghosts = append(cur.Ghosts, g)
		case "at":
			// at call N assert <expr>
			if cur == nil {
				return nil, fail(fmt.Errorf("at outside func"))
			}
			w1, r1 := splitWord(rest)
			ns, r2 := splitWord(r1)
			w3, r3 := splitWord(r2)
			n, err := strconv.Atoi(ns)
			if err != nil && w1 == "call" && ns != "" && (ns[0] == '_' || unicode.IsLetter(rune(ns[0]))) {
				// at call <calleeName> assert|snapshot: every call whose callee has that (unqualified)
				// name; robust against statement reordering, unlike the static ordinal
				if cur.NamedOrd == nil {
					cur.NamedOrd = map[string]int{}
				}
				if _, ok := cur.NamedOrd[ns]; !ok {
					cur.NamedOrd[ns] = -(len(cur.NamedOrd) + 1)
				}
				n, err = cur.NamedOrd[ns], nil
			}
			if w1 == "call" && w3 == "snapshot" && err == nil {
				if cur.Snapshots == nil {
					cur.Snapshots = map[int][]string{}
				}
				cur.Snapshots[n] = append(cur.Snapshots[n], strings.TrimSpace(r3))
				continue
			}
			if w1 != "call" || w3 != "assert" || err != nil {
				return nil, fail(fmt.Errorf("expected: at call N assert <expr> | at call N snapshot NAME"))
			}
			var aprops []string
			for strings.HasPrefix(strings.TrimSpace(r3), "@") {
				w1, r1 := splitWord(strings.TrimSpace(r3))
				aprops = append(aprops, strings.TrimPrefix(w1, "@"))
				r3 = r1
			}
			e, err := ParseSpecExpr(r3)
			if err != nil {
				return nil, fail(err)
			}
			if cur.Asserts == nil {
				cur.Asserts = map[int][]Clause{}
			}
			cur.Asserts[n] = append(cur.Asserts[n], Clause{Text: r3, E: e, Line: rc.line, File: path, Props: aprops})
		case "loop":
			if cur == nil {
				return nil, fail(fmt.Errorf("loop outside func"))
			}
			ns, r2 := splitWord(rest)
			n, err := strconv.Atoi(strings.TrimSuffix(ns, ":"))
			if err != nil {
				return nil, fail(fmt.Errorf("loop ordinal: %v", err))
			}
			ls := cur.Loops[n]
			if ls == nil {
				ls = &LoopSpec{}
				cur.Loops[n] = ls
			}
			k2, r3 := splitWord(r2)
			switch k2 {
			case "invariant":
				var iprops []string
				for strings.HasPrefix(strings.TrimSpace(r3), "@") {
					w1, r1 := splitWord(strings.TrimSpace(r3))
					iprops = append(iprops, strings.TrimPrefix(w1, "@"))
					r3 = r1
				}
				e, err := ParseSpecExpr(r3)
				if err != nil {
					return nil, fail(err)
				}
				ls.Invariants = append(ls.Invariants, Clause{Text: r3, E: e, Line: rc.line, File: path, Props: iprops})
			case "assert":
				// proved at the end of the loop body (before the post statement), then assumed;
				// pre(e) refers to the value of e at the head of the current iteration
				var lprops []string
				for strings.HasPrefix(strings.TrimSpace(r3), "@") {
					w1, r1 := splitWord(strings.TrimSpace(r3))
					lprops = append(lprops, strings.TrimPrefix(w1, "@"))
					r3 = r1
				}
				e, err := ParseSpecExpr(r3)
				if err != nil {
					return nil, fail(err)
				}
				ls.Asserts = append(ls.Asserts, Clause{Text: r3, E: e, Line: rc.line, File: path, Props: lprops})
			case "summarize":
				ls.Summarize = true
			case "unroll":
				ls.Unroll = 64
				if strings.TrimSpace(r3) != "" {
					m, err := strconv.Atoi(strings.TrimSpace(r3))
					if err != nil {
						return nil, fail(err)
					}
					ls.Unroll = m
				}
			case "modifies":
				es, err := parseExprList(r3)
				if err != nil {
					return nil, fail(err)
				}
				ls.Modifies = append(ls.Modifies, es...)
			default:
				return nil, fail(fmt.Errorf("unknown loop clause %q", k2))
			}
		case "spec":
			// spec func name(a T, b T) T = expr      (body optional)
			sf, err := parseSpecFunc(rest)
			if err != nil {
				return nil, fail(err)
			}
			sf.Pkg = pkgPath
			cf.SpecFuncs = append(cf.SpecFuncs, sf)
		case "lemma", "axiom":
			// lemma name [props ..]: expr
			i := strings.Index(rest, ":")
			if i < 0 {
				return nil, fail(fmt.Errorf("lemma without ':'"))
			}
			head := strings.Fields(rest[:i])
			if len(head) == 0 {
				return nil, fail(fmt.Errorf("lemma without name"))
			}
			lm := &Lemma{Name: head[0], Axiom: kw == "axiom", Pkg: pkgPath, File: path, Line: rc.line, Text: strings.TrimSpace(rest[i+1:])}
			mode := ""
			for _, h := range head[1:] {
				switch {
				case h == "props" || h == "reveal" || h == "uses" || h == "induct":
					mode = h
				case mode == "induct":
					lm.Induct = h
				case mode == "uses":
					lm.Uses = append(lm.Uses, h)
				case mode == "props":
					lm.Props = append(lm.Props, h)
				case mode == "reveal":
					lm.Reveal = append(lm.Reveal, h)
				}
			}
			e, err := ParseSpecExpr(rest[i+1:])
			if err != nil {
				return nil, fail(err)
			}
			lm.E = e
			cf.Lemmas = append(cf.Lemmas, lm)
		case "type":
			name, r2 := splitWord(rest)
			k2, r3 := splitWord(r2)
			ts := &TypeSpec{Name: name, Pkg: pkgPath}
			switch k2 {
			case "opaque":
				ts.Opaque = true
			case "valuelike":
				ts.Valuelike = true
			case "invariant":
				e, err := ParseSpecExpr(r3)
				if err != nil {
					return nil, fail(err)
				}
				ts.Invariant = append(ts.Invariant, Clause{Text: r3, E: e, Line: rc.line, File: path})
			default:
				return nil, fail(fmt.Errorf("unknown type clause %q", k2))
			}
			cf.Types = append(cf.Types, ts)
		}
	}
	return cf, nil
}

func splitWord(s string) (string, string) {
	s = strings.TrimSpace(s)
	i := strings.IndexAny(s, " \t")
	if i < 0 {
		return s, ""
	}
	return s[:i], strings.TrimSpace(s[i+1:])
}

func parseSpecFunc(s string) (*SpecFunc, error) {
	kw, rest := splitWord(s)
	opaque := false
	rec := false
	if kw == "opaque" {
		opaque = true
		kw, rest = splitWord(rest)
	}
	if kw == "rec" {
		rec = true
		opaque = true
		kw, rest = splitWord(rest)
	}
	if kw != "func" {
		return nil, fmt.Errorf("expected 'spec func'")
	}
	op := strings.Index(rest, "(")
	if op < 0 {
		return nil, fmt.Errorf("spec func: missing (")
	}
	cl := strings.Index(rest, ")")
	if cl < op {
		return nil, fmt.Errorf("spec func: missing )")
	}
	sf := &SpecFunc{Name: strings.TrimSpace(rest[:op]), Opaque: opaque, Rec: rec}
	params := strings.TrimSpace(rest[op+1 : cl])
	if params != "" {
		for _, p := range strings.Split(params, ",") {
			f := strings.Fields(p)
			if len(f) != 2 {
				return nil, fmt.Errorf("spec func param %q: want 'name type'", p)
			}
			sf.Params = append(sf.Params, SBinder{f[0], f[1]})
		}
	}
	tail := strings.TrimSpace(rest[cl+1:])
	eq := strings.Index(tail, "=")
	if eq < 0 {
		sf.Result = strings.TrimSpace(tail)
		return sf, nil
	}
	sf.Result = strings.TrimSpace(tail[:eq])
	e, err := ParseSpecExpr(tail[eq+1:])
	if err != nil {
		return nil, err
	}
	sf.Body = e
	return sf, nil
}

// ---------- Pratt parser ----------

type stok struct {
	kind string // "id","int","str","char","op","eof"
	text string
}

type sparser struct {
	toks []stok
	pos  int
	src  string
}

func lexSpec(src string) ([]stok, error) {
	src = strings.ReplaceAll(src, "<==>", " ⇔ ")
	src = strings.ReplaceAll(src, "==>", " ⇒ ")
	src = strings.ReplaceAll(src, "::", " ∷ ")
	var s scanner.Scanner
	fset := token.NewFileSet()
	file := fset.AddFile("", fset.Base(), len(src))
	var errs []string
	s.Init(file, []byte(src), func(pos token.Position, msg string) {
		if !strings.Contains(msg, "illegal character") {
			errs = append(errs, msg)
		}
	}, 0)
	var out []stok
	for {
		_, tok, lit := s.Scan()
		if tok == token.EOF {
			break
		}
		switch {
		case tok == token.IDENT:
			out = append(out, stok{"id", lit})
		case tok == token.INT:
			out = append(out, stok{"int", lit})
		case tok == token.STRING:
			u, err := strconv.Unquote(lit)
			if err != nil {
				return nil, err
			}
			out = append(out, stok{"str", u})
		case tok == token.CHAR:
			u, _, _, err := strconv.UnquoteChar(lit[1:len(lit)-1], '\'')
			if err != nil {
				return nil, err
			}
			out = append(out, stok{"int", strconv.Itoa(int(u))})
		case tok == token.ILLEGAL:
			out = append(out, stok{"op", lit})
		case tok == token.SEMICOLON:
			if lit == "\n" {
				continue
			}
			out = append(out, stok{"op", ";"})
		case tok.IsKeyword():
			out = append(out, stok{"id", tok.String()})
		default:
			out = append(out, stok{"op", tok.String()})
		}
	}
	if len(errs) > 0 {
		return nil, fmt.Errorf("lex: %s", strings.Join(errs, "; "))
	}
	out = append(out, stok{"eof", ""})
	return out, nil
}

func ParseSpecExpr(src string) (SExpr, error) {
	toks, err := lexSpec(src)
	if err != nil {
		return nil, err
	}
	p := &sparser{toks: toks, src: src}
	e, err := p.expr(0)
	if err != nil {
		return nil, err
	}
	if p.peek().kind != "eof" {
		return nil, fmt.Errorf("trailing tokens at %q in %q", p.peek().text, src)
	}
	return e, nil
}

func parseExprList(src string) ([]SExpr, error) {
	toks, err := lexSpec(src)
	if err != nil {
		return nil, err
	}
	p := &sparser{toks: toks, src: src}
	var out []SExpr
	for {
		e, err := p.expr(0)
		if err != nil {
			return nil, err
		}
		out = append(out, e)
		if p.peek().kind == "op" && p.peek().text == "," {
			p.pos++
			continue
		}
		break
	}
	if p.peek().kind != "eof" {
		return nil, fmt.Errorf("trailing tokens at %q", p.peek().text)
	}
	return out, nil
}

func (p *sparser) peek() stok { return p.toks[p.pos] }
func (p *sparser) next() stok { t := p.toks[p.pos]; p.pos++; return t }
func (p *sparser) isOp(s string) bool {
	t := p.peek()
	return t.kind == "op" && t.text == s
}
func (p *sparser) expect(s string) error {
	if !p.isOp(s) {
		return fmt.Errorf("expected %q, got %q in %q", s, p.peek().text, p.src)
	}
	p.pos++
	return nil
}

var binPrec = map[string]int{
	"⇔": 1, "⇒": 2, "||": 3, "&&": 4,
	"==": 5, "!=": 5, "<": 5, "<=": 5, ">": 5, ">=": 5,
	"+": 6, "-": 6, "|": 6, "^": 6,
	"*": 7, "/": 7, "%": 7, "&": 7, "<<": 7, ">>": 7,
}

func (p *sparser) expr(minPrec int) (SExpr, error) {
	lhs, err := p.unary()
	if err != nil {
		return nil, err
	}
	for {
		t := p.peek()
		if t.kind != "op" {
			break
		}
		prec, ok := binPrec[t.text]
		if !ok || prec < minPrec {
			break
		}
		p.pos++
		nextMin := prec + 1
		if t.text == "⇒" { // right assoc
			nextMin = prec
		}
		rhs, err := p.expr(nextMin)
		if err != nil {
			return nil, err
		}
		op := t.text
		switch op {
		case "⇒":
			op = "==>"
		case "⇔":
			op = "<==>"
		}
		lhs = &SBin{Op: op, L: lhs, R: rhs}
	}
	return lhs, nil
}

func (p *sparser) unary() (SExpr, error) {
	t := p.peek()
	if t.kind == "op" && (t.text == "!" || t.text == "-" || t.text == "*") {
		p.pos++
		x, err := p.unary()
		if err != nil {
			return nil, err
		}
		return &SUn{Op: t.text, X: x}, nil
	}
	return p.postfix()
}

func (p *sparser) typeName() (string, error) {
	// ident | ident.ident | []T | *T
	var b strings.Builder
	for p.isOp("[") {
		p.pos++
		if err := p.expect("]"); err != nil {
			return "", err
		}
		b.WriteString("[]")
	}
	if p.isOp("*") {
		p.pos++
		b.WriteString("*")
	}
	t := p.next()
	if t.kind != "id" {
		return "", fmt.Errorf("expected type name, got %q", t.text)
	}
	b.WriteString(t.text)
	if p.isOp(".") {
		p.pos++
		t2 := p.next()
		b.WriteString("." + t2.text)
	}
	return b.String(), nil
}

func (p *sparser) quant(forall bool) (SExpr, error) {
	var vars []SBinder
	for {
		// names: a, b T
		var names []string
		for {
			t := p.next()
			if t.kind != "id" {
				return nil, fmt.Errorf("binder name expected, got %q", t.text)
			}
			names = append(names, t.text)
			if p.isOp(",") {
				// lookahead: "a, b T" vs "a T, b U": after comma an ident followed by ident/type -> ambiguous; treat
				// "name ," as a name list only if the token after next ident is "," or a type start.
				p.pos++
				continue
			}
			break
		}
		typ, err := p.typeName()
		if err != nil {
			return nil, err
		}
		for _, n := range names {
			vars = append(vars, SBinder{n, typ})
		}
		if p.isOp(",") {
			p.pos++
			continue
		}
		break
	}
	if !p.isOp("∷") {
		return nil, fmt.Errorf("expected '::' in quantifier, got %q", p.peek().text)
	}
	p.pos++
	body, err := p.expr(0)
	if err != nil {
		return nil, err
	}
	return &SQuant{Forall: forall, Vars: vars, Body: body}, nil
}

func (p *sparser) postfix() (SExpr, error) {
	t := p.next()
	var e SExpr
	switch t.kind {
	case "int":
		n, ok := new(big.Int).SetString(strings.ReplaceAll(t.text, "_", ""), 0)
		if !ok {
			return nil, fmt.Errorf("bad int %q", t.text)
		}
		e = &SIntLit{n}
	case "str":
		e = &SStrLit{t.text}
	case "id":
		switch t.text {
		case "true":
			e = &SBoolLit{true}
		case "false":
			e = &SBoolLit{false}
		case "forall":
			return p.quant(true)
		case "exists":
			// a Go parameter may be called `exists`: it is the quantifier only when a binder follows
			if nx := p.peek(); nx.kind != "id" {
				e = &SIdent{t.text}
				break
			}
			return p.quant(false)
		default:
			e = &SIdent{t.text}
		}
	case "op":
		if t.text == "(" {
			x, err := p.expr(0)
			if err != nil {
				return nil, err
			}
			if err := p.expect(")"); err != nil {
				return nil, err
			}
			e = x
		} else {
			return nil, fmt.Errorf("unexpected %q in %q", t.text, p.src)
		}
	default:
		return nil, fmt.Errorf("unexpected end of expression in %q", p.src)
	}
	for {
		switch {
		case p.isOp("."):
			p.pos++
			n := p.next()
			if n.kind != "id" {
				return nil, fmt.Errorf("selector name expected")
			}
			e = &SSel{X: e, Name: n.text}
		case p.isOp("("):
			p.pos++
			var args []SExpr
			for !p.isOp(")") {
				a, err := p.expr(0)
				if err != nil {
					return nil, err
				}
				args = append(args, a)
				if p.isOp(",") {
					p.pos++
				} else {
					break
				}
			}
			if err := p.expect(")"); err != nil {
				return nil, err
			}
			e = &SCall{Fun: e, Args: args}
		case p.isOp("["):
			p.pos++
			if p.isOp("]") { // x[] : "all elements" (modifies clauses)
				p.pos++
				e = &SIndex{X: e, I: nil}
				continue
			}
			var lo, hi SExpr
			var err error
			if !p.isOp(":") {
				lo, err = p.expr(0)
				if err != nil {
					return nil, err
				}
			}
			if p.isOp(":") {
				p.pos++
				if !p.isOp("]") {
					hi, err = p.expr(0)
					if err != nil {
						return nil, err
					}
				}
				if err := p.expect("]"); err != nil {
					return nil, err
				}
				e = &SSlice{X: e, Lo: lo, Hi: hi}
			} else {
				if err := p.expect("]"); err != nil {
					return nil, err
				}
				e = &SIndex{X: e, I: lo}
			}
		default:
			return e, nil
		}
	}
}

func specString(e SExpr) string {
	switch x := e.(type) {
	case nil:
		return ""
	case *SIdent:
		return x.Name
	case *SIntLit:
		return x.V.String()
	case *SStrLit:
		return strconv.Quote(x.V)
	case *SBoolLit:
		return fmt.Sprint(x.V)
	case *SBin:
		return "(" + specString(x.L) + " " + x.Op + " " + specString(x.R) + ")"
	case *SUn:
		return x.Op + specString(x.X)
	case *SCall:
		var as []string
		for _, a := range x.Args {
			as = append(as, specString(a))
		}
		return specString(x.Fun) + "(" + strings.Join(as, ", ") + ")"
	case *SIndex:
		return specString(x.X) + "[" + specString(x.I) + "]"
	case *SSlice:
		return specString(x.X) + "[" + specString(x.Lo) + ":" + specString(x.Hi) + "]"
	case *SSel:
		return specString(x.X) + "." + x.Name
	case *SQuant:
		q := "exists"
		if x.Forall {
			q = "forall"
		}
		var vs []string
		for _, v := range x.Vars {
			vs = append(vs, v.Name+" "+v.Type)
		}
		return "(" + q + " " + strings.Join(vs, ", ") + " :: " + specString(x.Body) + ")"
	}
	return fmt.Sprintf("%T", e)
}
