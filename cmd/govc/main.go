package main

import (
	"go/ast"
	"encoding/json"
	"flag"
	"fmt"
	"os"
	"path/filepath"
	"runtime"
	"sort"
	"strconv"
	"strings"
	"time"
)

type PropConfig struct {
	ID       string   `json:"id"`
	Dir      string   `json:"dir"`      // module directory to load from (default /repo)
	Packages []string `json:"packages"` // package patterns relative to Dir
	Level    string   `json:"level"`
	Notes    []string `json:"not_decided"`
	Replay   string   `json:"replay_driver"`
	// ContractAlias: calls resolved to the left key use the contract of the right key (e.g. reads
	// through state.Immutable of an object that is also written through state.Mutable must use the
	// map contract, not the pure-function one)
	ContractAlias map[string]string `json:"contract_alias"`
}

type KnownFinding struct {
	Status     string `json:"status"` // "open" | "fixed"
	Property   string `json:"property"`
	Obligation string `json:"obligation"` // obligation name prefix (without @retN / path)
	What       string `json:"what"`
	Commit     string `json:"commit,omitempty"`
}

func main() {
	if len(os.Args) < 2 {
		fmt.Fprintln(os.Stderr, "usage: govc check <property> [--tier quick|thorough] | govc dump <property>")
		os.Exit(2)
	}
	switch os.Args[1] {
	case "check":
		os.Exit(cmdCheck(os.Args[2:]))
	case "calls":
		// govc calls <property> <function-key-substring>: print the static call ordinals of a function
		cfg, err := loadPropConfig("/verif", os.Args[2])
		if err != nil {
			fmt.Println(err)
			os.Exit(2)
		}
		dir := "/repo"
		if cfg.Dir != "" {
			dir = filepath.Join(dir, cfg.Dir)
		}
		w, err := LoadWorld(dir, cfg.Packages, "/repo", "/verif/contracts", nil)
		if err != nil {
			fmt.Println(err)
			os.Exit(2)
		}
		for _, pi := range w.Pkgs {
			for key, fd := range pi.Funcs {
				if !strings.Contains(key, os.Args[3]) || fd.Body == nil {
					continue
				}
				fmt.Println(key)
				f := &Frame{in: NewInterp(w), pkg: pi.P, decl: fd, key: key}
				n := 0
				ast.Inspect(fd.Body, func(x ast.Node) bool {
					if c, ok := x.(*ast.CallExpr); ok {
						if fn := f.calleeOf(c); fn != nil && !isDroppedKey(funcKey(fn)) {
							n++
							fmt.Printf("  %3d  %s  (%s)\n", n, funcKey(fn), w.Fset.Position(c.Pos()))
						}
					}
					return true
				})
			}
		}
	case "parse":
		for _, p := range os.Args[2:] {
			cf, err := ParseContractFile(p, "x")
			if err != nil {
				fmt.Println(err)
				os.Exit(1)
			}
			fmt.Printf("%s: %d contracts, %d spec funcs, %d lemmas\n", p, len(cf.Contracts), len(cf.SpecFuncs), len(cf.Lemmas))
		}
	default:
		fmt.Fprintln(os.Stderr, "unknown command")
		os.Exit(2)
	}
}

func cmdCheck(args []string) int {
	fs := flag.NewFlagSet("check", flag.ExitOnError)
	tier := fs.String("tier", "quick", "quick|thorough")
	repo := fs.String("repo", "/repo", "repository root")
	verif := fs.String("verif", "/verif", "verif root")
	keep := fs.Bool("keep", false, "keep scratch dir")
	only := fs.String("only", "", "only functions whose key contains this")
	verbose := fs.Bool("v", false, "verbose")
	oblFilter := fs.String("obl", "", "debug: only solve obligations whose name contains this")
	if len(args) < 1 {
		return 2
	}
	id := args[0]
	currentProp = id
	contractAlias = map[string]string{}
	fs.Parse(args[1:])
	if t := os.Getenv("VERIF_TIER"); t != "" {
		*tier = t
	}
	seed := 0
	if s := os.Getenv("VERIF_SEED"); s != "" {
		seed, _ = strconv.Atoi(s)
	}
	t0 := time.Now()
	cfg, err := loadPropConfig(*verif, id)
	if err != nil {
		fmt.Printf("UNDECIDED property=%s %v\n", id, err)
		return 2
	}
	for k, v := range cfg.ContractAlias {
		contractAlias[k] = v
	}
	dir := *repo
	if cfg.Dir != "" {
		dir = filepath.Join(*repo, cfg.Dir)
	}
	w, err := LoadWorld(dir, cfg.Packages, *repo, filepath.Join(*verif, "contracts"), nil)
	if err != nil {
		fmt.Printf("UNDECIDED property=%s load: %v\n", id, err)
		return 2
	}
	tLoad := time.Since(t0)
	if msg := mirrorCheck(w, *repo, filepath.Join(*verif, "contracts")); msg != "" {
		fmt.Printf("UNDECIDED property=%s contract mirror mismatch: %s\n", id, msg)
		return 2
	}
	var reps []*FuncReport
	var keys []string
	for k, c := range w.Contracts {
		if hasProp(c.Props, id) && !c.Trusted && (*only == "" || strings.Contains(k, *only)) {
			keys = append(keys, k)
		}
	}
	sort.Strings(keys)
	for _, k := range keys {
		reps = append(reps, VerifyFunc(w, k, w.Contracts[k]))
	}
	for _, lm := range w.Lemmas {
		if hasProp(lm.Props, id) && !lm.Axiom && (*only == "" || strings.Contains(lm.Name, *only)) {
			reps = append(reps, VerifyLemma(w, lm))
		}
	}
	scratch, _ := os.MkdirTemp("", "govc-"+id+"-")
	if !*keep {
		defer os.RemoveAll(scratch)
	} else {
		fmt.Println("scratch:", scratch)
	}
	timeout, need := 12, 1
	if *tier == "thorough" {
		timeout, need = 60, 2
	}
	workers := runtime.NumCPU() / 3 // three solver processes per obligation
	if workers < 2 {
		workers = 2
	}
	if *oblFilter != "" {
		for _, rep := range reps {
			var keepO []*Obligation
			for _, o := range rep.Obligations {
				if strings.Contains(o.Name, *oblFilter) {
					keepO = append(keepO, o)
				}
			}
			rep.Obligations = keepO
		}
	}
	for _, k := range loadKnownFindings(*verif) {
		if k.Status == "open" && k.Property == id {
			knownOpen[k.Obligation] = true
		}
	}
	tGen := time.Since(t0)
	SolveAll(reps, scratch, timeout, seed, need, workers)
	if *verbose {
		fmt.Printf("timing: load %.1fs, generate %.1fs, solve %.1fs\n", tLoad.Seconds(), (tGen - tLoad).Seconds(), (time.Since(t0) - tGen).Seconds())
	}
	return report(id, cfg, w, reps, *tier, seed, *verif, *repo, time.Since(t0), *verbose, scratch)
}

// currentProp: the property being checked (clauses tagged @ID are proved only under that property)
var currentProp string

// contractAlias: per-property redirection of a callee key to another contract (see PropConfig)
var contractAlias = map[string]string{}

// Proof groups.  A clause tagged `@g:NAME` belongs to group NAME: its obligations are proved with
// every hypothesis, but as a hypothesis it is used only for obligations of the same group.  The
// obligations of untagged clauses are thus proved without the tagged facts (sound: hypotheses are
// only dropped), which keeps unrelated quantified invariants out of each other's queries.
func clauseGroup(ps []string) string {
	for _, p := range ps {
		if strings.HasPrefix(p, "g:") {
			return strings.TrimPrefix(p, "g:")
		}
	}
	return ""
}

// propTags: the property tags of a clause (group tags removed).
func propTags(ps []string) []string {
	var out []string
	for _, p := range ps {
		if !strings.HasPrefix(p, "g:") {
			out = append(out, p)
		}
	}
	return out
}

var grpCounter int

// inGroup marks a hypothesis as belonging to a proof group (an SMT :named annotation carries it).
func inGroup(t Term, g string) Term {
	if g == "" || t.IsTrue() {
		return t
	}
	grpCounter++
	return Term{S: fmt.Sprintf("(! %s :named grp_%s_%d)", t.S, sanitize(g), grpCounter), Sort: SBool}
}

// hypGroup: the proof group of a hypothesis ("" if none).
func hypGroup(s string) string {
	if !strings.HasPrefix(s, "(! ") {
		return ""
	}
	i := strings.LastIndex(s, ":named grp_")
	if i < 0 {
		return ""
	}
	rest := strings.TrimSuffix(s[i+len(":named grp_"):], ")")
	if j := strings.LastIndex(rest, "_"); j > 0 {
		return rest[:j]
	}
	return ""
}

func hasProp(ps []string, id string) bool {
	for _, p := range ps {
		if p == id {
			return true
		}
	}
	return false
}

func loadPropConfig(verif, id string) (*PropConfig, error) {
	data, err := os.ReadFile(filepath.Join(verif, "props", id+".json"))
	if err != nil {
		return nil, err
	}
	var c PropConfig
	if err := json.Unmarshal(data, &c); err != nil {
		return nil, err
	}
	c.ID = id
	return &c, nil
}

// mirrorCheck: /repo's contract files and /verif/contracts must be byte-identical.
func mirrorCheck(w *World, repo, mirror string) string {
	for _, cf := range w.Files {
		if !strings.HasPrefix(cf.Path, repo+"/") {
			continue
		}
		rel, _ := filepath.Rel(repo, cf.Path)
		m := filepath.Join(mirror, rel)
		a, err1 := os.ReadFile(cf.Path)
		b, err2 := os.ReadFile(m)
		if err1 != nil || err2 != nil {
			return fmt.Sprintf("%s vs %s: %v %v", cf.Path, m, err1, err2)
		}
		if string(a) != string(b) {
			return fmt.Sprintf("%s differs from %s", cf.Path, m)
		}
	}
	return ""
}

func loadKnownFindings(verif string) []KnownFinding {
	data, err := os.ReadFile(filepath.Join(verif, "known_findings.json"))
	if err != nil {
		return nil
	}
	var kf struct {
		Findings []KnownFinding `json:"findings"`
	}
	if err := json.Unmarshal(data, &kf); err != nil {
		fmt.Fprintln(os.Stderr, "known_findings.json:", err)
		return nil
	}
	return kf.Findings
}

func oblBase(name string) string {
	if i := strings.Index(name, "@ret"); i >= 0 {
		return name[:i]
	}
	return name
}

func report(id string, cfg *PropConfig, w *World, reps []*FuncReport, tier string, seed int, verif, repo string, wall time.Duration, verbose bool, scratch string) int {
	total, discharged := 0, 0
	bySolver := map[string]int{}
	solverTime := 0.0
	var failed []*Obligation
	var failedRep = map[*Obligation]*FuncReport{}
	var vacuity []string
	var undecided []string
	var samples []interface{}
	assumes := map[string]bool{}
	var funcs []string
	canaryOK, coverChecks := 0, 0
	for _, rep := range reps {
		funcs = append(funcs, rep.Key)
		if rep.Unsupported != "" {
			// The function is under contract and its obligations were generated and discharged on
			// the unchanged tree (otherwise it would not be claimed).  If they can no longer even be
			// generated (annotation refers to code that changed shape, or the body left the
			// supported subset), the contract is no longer established: reported as a failed
			// obligation without input, not as a pass and not silently as undecided.
			vo := &Obligation{Name: rep.Key + "#vc-generation", Func: rep.Key, Kind: "vcgen", Text: rep.Unsupported,
				Result: &SolveResult{Status: "unknown", Outputs: map[string]string{"govc": rep.Unsupported}}}
			total++
			failed = append(failed, vo)
			failedRep[vo] = nil
		}
		for _, a := range rep.Assumes {
			assumes[a] = true
		}
		for _, o := range rep.Obligations {
			r := o.Result
			if r == nil {
				continue
			}
			solverTime += r.TimeS
			if o.Expect == "sat" {
				if verbose {
					fmt.Printf("  %-8s %-12s %6.2fs %s (expected sat)\n", r.Status, r.Solver, r.TimeS, o.Name)
				}
				coverChecks++
				switch r.Status {
				case "unsat":
					vacuity = append(vacuity, o.Name+" is unsatisfiable (vacuous contract)")
				case "sat":
					canaryOK++
				}
				continue
			}
			total++
			switch r.Status {
			case "unsat":
				discharged++
				bySolver[r.Solver]++
				if len(samples) < 12 && !o.Derived {
					samples = append(samples, map[string]interface{}{"obligation": o.Name, "solver": r.Solver, "time_s": round3(r.TimeS), "spec": o.Text})
				}
			case "conflict":
				undecided = append(undecided, o.Name+": solvers disagree "+r.Solver)
			case "error":
				undecided = append(undecided, o.Name+": malformed SMT (engine bug): "+fmt.Sprint(r.Outputs))
			default:
				failed = append(failed, o)
				failedRep[o] = rep
			}
			if verbose {
				fmt.Printf("  %-8s %-12s %6.2fs %s\n", r.Status, r.Solver, r.TimeS, o.Name)
			}
		}
	}
	kfs := loadKnownFindings(verif)
	violations := 0
	var knownLines []string
	var violationLines []string
	seenKnown := map[string]bool{}
	knownFailed := 0
	replays := 0
	replayedBase := map[string]bool{}
	replayStart := time.Now()
	for _, o := range failed {
		base := oblBase(o.Name)
		matched := false
		for _, k := range kfs {
			if k.Status == "open" && k.Property == id && (k.Obligation == base || k.Obligation == o.Name) {
				matched = true
				if !seenKnown[k.Obligation] {
					seenKnown[k.Obligation] = true
					knownLines = append(knownLines, fmt.Sprintf("KNOWN-FINDING: property=%s %s [%s]", id, k.What, k.Obligation))
				}
			}
		}
		if matched {
			knownFailed++
			continue
		}
		violations++
		// replay budget: the first few failed obligations (at most one per obligation
		// base name) are replayed on the real code, the rest only get their record.
		doReplay := replays < 4 && !replayedBase[base] && time.Since(replayStart) < 150*time.Second
		if doReplay {
			replays++
			replayedBase[base] = true
		}
		path := writeReplay(id, o, failedRep[o], verif, repo, cfg, doReplay)
		violationLines = append(violationLines, path)
	}
	// an OPEN known finding whose obligation no longer fails is stale -- or the hypotheses have become
	// inconsistent (every open finding doubles as a must-fail canary): never a silent pass
	for _, k := range kfs {
		if k.Status == "open" && k.Property == id && !seenKnown[k.Obligation] {
			undecided = append(undecided, "open known finding no longer reproduces (stale entry, or inconsistent hypotheses): "+k.Obligation)
		}
	}
	exit := 0
	if len(undecided) > 0 || len(vacuity) > 0 || total == 0 {
		exit = 2
	}
	if violations > 0 {
		exit = 1
	}
	for _, l := range knownLines {
		fmt.Println(l)
	}
	for _, l := range violationLines {
		fmt.Println(l)
	}
	for _, u := range undecided {
		fmt.Printf("UNDECIDED property=%s %s\n", id, u)
	}
	for _, v := range vacuity {
		fmt.Printf("UNDECIDED property=%s vacuity: %s\n", id, v)
	}
	if total == 0 {
		fmt.Printf("UNDECIDED property=%s zero obligations generated\n", id)
	}
	var assumeList []string
	for a := range assumes {
		assumeList = append(assumeList, a)
	}
	sort.Strings(assumeList)
	for _, n := range cfg.Notes {
		assumeList = append(assumeList, "NOT DECIDED: "+n)
	}
	trusted := []string{"govc VC generator (/verif/cmd/govc)", "go/types, go/packages (x/tools v0.29.0)", "SMT solvers z3 4.8.12, z3 5.1.0, cvc5 1.0.3"}
	for _, a := range assumeList {
		if strings.HasPrefix(a, "extern") || strings.HasPrefix(a, "assumed contract") || strings.HasPrefix(a, "pure extern") {
			trusted = append(trusted, a)
		}
	}
	sort.Strings(funcs)
	ev := map[string]interface{}{
		"property_id": id,
		"tier":        tier,
		"seed":        seed,
		"level":       "proof",
		"coverage": map[string]interface{}{
			// obligations claimed proved by this run; those that fail and are recorded as OPEN known
			// findings are not claimed and are counted separately (they are reported on stdout)
			"obligations":              total - knownFailed,
			"discharged":               discharged,
			"obligations_failing_as_open_known_findings": knownFailed,
			"checker_cmd":              fmt.Sprintf("./check %s --tier %s", id, tier),
			"trusted_base":             trusted,
			"functions_under_contract": funcs,
			"by_solver":                bySolver,
			"solver_time_s":            round3(solverTime),
			"cover_checks":             coverChecks,
			"cover_checks_sat":         canaryOK,
			"samples":                  samples,
			"known_findings_reported":  knownLines,
			"undecided":                undecided,
			"integer_model":            "Go integers are 64/32/16/8-bit: every + - * is wrapped (mod 2^w) explicitly; spec arithmetic is over mathematical integers",
			"what_extraction_drops":    "mutex Lock/Unlock, tracing, logging and metric calls (treated as effect-free); termination is not proved",
		},
		"assumptions": assumeList,
		"wall_s":      round3(wall.Seconds()),
		"violations":  violations,
	}
	// Mutation / seeded-change runs (selftest/run.sh, tools/try_seed.sh) set VERIF_EVIDENCE_DIR
	// so that evidence of a deliberately broken tree never overwrites the committed record.
	evDir := filepath.Join(verif, "evidence")
	if d := os.Getenv("VERIF_EVIDENCE_DIR"); d != "" {
		evDir = d
	}
	os.MkdirAll(evDir, 0o755)
	data, _ := json.MarshalIndent(ev, "", " ")
	if err := os.WriteFile(filepath.Join(evDir, id+".json"), data, 0o644); err != nil {
		fmt.Fprintln(os.Stderr, "evidence:", err)
		if exit == 0 {
			exit = 2
		}
	}
	fmt.Printf("%s: %d/%d obligations discharged, %d functions, %d known findings, %d violations, %.1fs (exit %d)\n",
		id, discharged, total, len(funcs), len(knownLines), violations, wall.Seconds(), exit)
	return exit
}

func round3(x float64) float64 { return float64(int(x*1000+0.5)) / 1000 }

// writeReplay stores the failed obligation, the solver output / model, and (when a
// driver exists) the result of replaying the model on the real code.
func writeReplay(id string, o *Obligation, rep *FuncReport, verif, repo string, cfg *PropConfig, doReplay bool) string {
	dir := filepath.Join(verif, "replays", id)
	os.MkdirAll(dir, 0o755)
	name := sanitize(o.Name)
	if len(name) > 120 {
		name = name[:120]
	}
	path := filepath.Join(dir, name+".json")
	r := o.Result
	rec := map[string]interface{}{
		"property":       id,
		"obligation":     o.Name,
		"kind":           o.Kind,
		"spec":           o.Text,
		"source":         o.Pos.String(),
		"path":           o.Path,
		"solver_status":  r.Status,
		"solver":         r.Solver,
		"solver_outputs": r.Outputs,
	}
	suffix := " no-failing-input-found"
	if r.Model != "" {
		rec["model"] = r.Model
	}
	if rep != nil && !doReplay {
		rec["replay"] = "not attempted (replay budget: 4 obligations / 150 s per check; see the other replay files of this run)"
	}
	if rep != nil && doReplay {
		ok, detail := replayOnRealCode(id, o, rep, nil, repo, verif, cfg)
		if ok {
			suffix = ""
		}
		rec["replay"] = detail
		rec["replay_confirmed_on_real_code"] = ok
	}
	if rep != nil {
		smt := buildSMT(rep, o, true)
		if len(smt) < 1<<20 {
			rec["smt2"] = smt
		}
	}
	data, _ := json.MarshalIndent(rec, "", " ")
	os.WriteFile(path, data, 0o644)
	return fmt.Sprintf("VIOLATION property=%s replay=%s obligation=%s%s", id, path, o.Name, suffix)
}
