package main

import (
	"fmt"
	"go/ast"
	"go/token"
	"go/types"
	"os"
	"path/filepath"
	"strings"

	"golang.org/x/tools/go/packages"
)

type pkgInfo struct {
	P     *packages.Package
	Funcs map[string]*ast.FuncDecl // by canonical key
}

type paramNameSet struct {
	recv   string
	params []string
}

type World struct {
	Fset        *token.FileSet
	Pkgs        map[string]*pkgInfo // by package path
	Contracts   map[string]*Contract
	SpecFuncs   map[string]*SpecFunc // "pkg#name" and "#name" for global lookups
	Lemmas      []*Lemma
	TypeSpecs   map[string]*TypeSpec
	opaqueTypes map[string]bool
	valuelike   map[string]bool
	pureExterns map[string]bool
	Files       []*ContractFile
	globals     map[string]*Cell
	qn          int
	RepoDir     string
	MirrorDir   string
	LoadErrors  []string
}

// LoadWorld loads the given packages (with syntax and types) from dir and the
// contract files that sit next to them.
func LoadWorld(dir string, patterns []string, repoRoot, mirrorRoot string, overlay map[string][]byte) (*World, error) {
	w := &World{Fset: token.NewFileSet(), Pkgs: map[string]*pkgInfo{}, Contracts: map[string]*Contract{}, SpecFuncs: map[string]*SpecFunc{},
		TypeSpecs: map[string]*TypeSpec{}, opaqueTypes: map[string]bool{}, valuelike: map[string]bool{}, pureExterns: map[string]bool{}, globals: map[string]*Cell{},
		RepoDir: repoRoot, MirrorDir: mirrorRoot}
	cfg := &packages.Config{
		Mode: packages.NeedName | packages.NeedFiles | packages.NeedSyntax | packages.NeedTypes | packages.NeedTypesInfo |
			packages.NeedImports | packages.NeedTypesSizes | packages.NeedCompiledGoFiles,
		Dir:     dir,
		Fset:    w.Fset,
		Env:     append(os.Environ(), "GOFLAGS=-mod=mod", "GOPROXY=off"),
		Overlay: overlay,
	}
	pkgs, err := packages.Load(cfg, patterns...)
	if err != nil {
		return nil, err
	}
	for _, p := range pkgs {
		for _, e := range p.Errors {
			w.LoadErrors = append(w.LoadErrors, e.Error())
		}
		pi := &pkgInfo{P: p, Funcs: map[string]*ast.FuncDecl{}}
		w.Pkgs[p.PkgPath] = pi
		for _, file := range p.Syntax {
			for _, d := range file.Decls {
				fd, ok := d.(*ast.FuncDecl)
				if !ok {
					continue
				}
				obj, ok := p.TypesInfo.Defs[fd.Name].(*types.Func)
				if !ok {
					continue
				}
				pi.Funcs[funcKey(obj)] = fd
			}
		}
	}
	if len(w.LoadErrors) > 0 {
		return w, fmt.Errorf("package load errors: %s", strings.Join(w.LoadErrors, "; "))
	}
	// contract files
	for path, pi := range w.Pkgs {
		if len(pi.P.GoFiles) == 0 {
			continue
		}
		pdir := filepath.Dir(pi.P.GoFiles[0])
		cpath := filepath.Join(pdir, "verif_contracts.go")
		if _, err := os.Stat(cpath); err != nil {
			// fall back to the mirror
			rel, rerr := filepath.Rel(repoRoot, pdir)
			if rerr != nil {
				continue
			}
			cpath = filepath.Join(mirrorRoot, rel, "verif_contracts.go")
			if _, err := os.Stat(cpath); err != nil {
				continue
			}
		}
		cf, err := ParseContractFile(cpath, path)
		if err != nil {
			return w, err
		}
		w.addContractFile(cf)
	}
	return w, nil
}

func (w *World) addContractFile(cf *ContractFile) {
	w.Files = append(w.Files, cf)
	for _, c := range cf.Contracts {
		w.Contracts[contractKey(cf.Pkg, c.Name)] = c
	}
	for _, sf := range cf.SpecFuncs {
		w.SpecFuncs[cf.Pkg+"#"+sf.Name] = sf
		if _, dup := w.SpecFuncs["#"+sf.Name]; !dup {
			w.SpecFuncs["#"+sf.Name] = sf
		}
	}
	w.Lemmas = append(w.Lemmas, cf.Lemmas...)
	for _, ts := range cf.Types {
		key := ts.Name
		if !strings.Contains(key, ".") {
			key = cf.Pkg + "." + ts.Name
		}
		if ts.Opaque {
			w.opaqueTypes[key] = true
		}
		if ts.Valuelike {
			w.valuelike[key] = true
		}
		w.TypeSpecs[key] = ts
	}
}

// contractKey normalises "Func", "(*T).M", "T.M" to the funcKey form.
func contractKey(pkg, name string) string {
	if strings.Contains(name, "/") || (strings.Count(name, ".") >= 1 && !strings.HasPrefix(name, "(") && strings.Contains(name[:strings.Index(name, ".")], "/")) {
		return name // already fully qualified
	}
	if strings.HasPrefix(name, "(") {
		return pkg + "." + name
	}
	if i := strings.Index(name, "."); i >= 0 {
		// T.M (value receiver or interface) -> try both forms at lookup time; store canonical "(T).M"
		return pkg + ".(" + name[:i] + ")" + name[i:]
	}
	return pkg + "." + name
}

func (w *World) contractFor(key string) *Contract {
	if c, ok := w.Contracts[key]; ok {
		return c
	}
	// interface method keys have the form pkg.T.M; contracts store pkg.(T).M
	if i := strings.LastIndex(key, "."); i >= 0 {
		head := key[:i]
		if j := strings.LastIndex(head, "."); j >= 0 && !strings.HasSuffix(head, ")") {
			alt := head[:j] + ".(" + head[j+1:] + ")" + key[i:]
			if c, ok := w.Contracts[alt]; ok {
				return c
			}
		}
	}
	return nil
}

func (w *World) funcDecl(key string) (*ast.FuncDecl, *pkgInfo) {
	for _, pi := range w.Pkgs {
		if fd, ok := pi.Funcs[key]; ok {
			return fd, pi
		}
	}
	return nil, nil
}

func (w *World) pkgByPath(path string) *packages.Package {
	if pi, ok := w.Pkgs[path]; ok {
		return pi.P
	}
	return nil
}

// importedPkg resolves an import name used inside package pkgPath.
func (w *World) importedPkg(pkgPath, name string) *types.Package {
	pi, ok := w.Pkgs[pkgPath]
	if !ok {
		return nil
	}
	for _, imp := range pi.P.Types.Imports() {
		if imp.Name() == name {
			return imp
		}
	}
	// explicit renames
	for _, file := range pi.P.Syntax {
		for _, is := range file.Imports {
			if is.Name != nil && is.Name.Name == name {
				p := strings.Trim(is.Path.Value, `"`)
				for _, imp := range pi.P.Types.Imports() {
					if imp.Path() == p {
						return imp
					}
				}
			}
		}
	}
	return nil
}

func (w *World) specFunc(pkgPath, name string) *SpecFunc {
	if i := strings.Index(name, "."); i >= 0 {
		// qualified by import name (alias aware), else by suffix of the package path
		q, n := name[:i], name[i+1:]
		if imp := w.importedPkg(pkgPath, q); imp != nil {
			if sf, ok := w.SpecFuncs[imp.Path()+"#"+n]; ok {
				return sf
			}
		}
		for k, sf := range w.SpecFuncs {
			if strings.HasSuffix(k, "#"+n) && (strings.HasSuffix(sf.Pkg, "/"+q) || sf.Pkg == q) {
				return sf
			}
		}
		return nil
	}
	if sf, ok := w.SpecFuncs[pkgPath+"#"+name]; ok {
		return sf
	}
	return w.SpecFuncs["#"+name]
}

func (w *World) lookupType(pkgPath, name string) types.Type {
	var scope *types.Scope
	n := name
	if i := strings.Index(name, "."); i >= 0 {
		imp := w.importedPkg(pkgPath, name[:i])
		if imp == nil {
			for _, pi := range w.Pkgs {
				if pi.P.Name == name[:i] {
					imp = pi.P.Types
				}
			}
		}
		if imp == nil {
			return nil
		}
		scope = imp.Scope()
		n = name[i+1:]
	} else if pi, ok := w.Pkgs[pkgPath]; ok {
		scope = pi.P.Types.Scope()
	}
	if scope == nil {
		return nil
	}
	if o, ok := scope.Lookup(n).(*types.TypeName); ok {
		return o.Type()
	}
	return nil
}

func (w *World) globalCell(in *Interp, key string, t types.Type) *Cell {
	if c, ok := w.globals[key]; ok {
		return c
	}
	c := in.newCell(key, CVar, t)
	w.globals[key] = c
	return c
}

func (w *World) isPureExtern(key string) bool { return w.pureExterns[key] }

func (w *World) refCell(in *Interp, ref Term, elem types.Type) *Cell {
	panic(&Unsupported{Msg: fmt.Sprintf("pointer read back from a container (field-heap model not available): *%s, term sort %s", elem, ref.Sort)})
}

// paramNames returns the declared receiver/parameter names of the function a contract is about.
func (w *World) paramNames(c *Contract, fn *types.Func) paramNameSet {
	var ps paramNameSet
	sig := fn.Origin().Type().(*types.Signature)
	if fd, _ := w.funcDecl(funcKey(fn)); fd != nil {
		if fd.Recv != nil && len(fd.Recv.List) > 0 && len(fd.Recv.List[0].Names) > 0 {
			ps.recv = fd.Recv.List[0].Names[0].Name
		}
		for _, fl := range fd.Type.Params.List {
			if len(fl.Names) == 0 {
				ps.params = append(ps.params, "")
			}
			for _, n := range fl.Names {
				ps.params = append(ps.params, n.Name)
			}
		}
		return ps
	}
	if sig.Recv() != nil {
		ps.recv = sig.Recv().Name()
		if ps.recv == "" {
			ps.recv = "self"
		}
	}
	for i := 0; i < sig.Params().Len(); i++ {
		ps.params = append(ps.params, sig.Params().At(i).Name())
	}
	return ps
}

// pureContract finds a `pure` contract by the name used in specs: "F", "T.M", "pkg.F", "pkg.T.M".
func (w *World) pureContract(pkgPath, name string) *Contract {
	try := func(pkg, n string) *Contract {
		if c, ok := w.Contracts[contractKey(pkg, n)]; ok && c.Pure {
			return c
		}
		if i := strings.Index(n, "."); i >= 0 {
			if c, ok := w.Contracts[pkg+".(*"+n[:i]+")"+n[i:]]; ok && c.Pure {
				return c
			}
		}
		return nil
	}
	if c := try(pkgPath, name); c != nil {
		return c
	}
	if i := strings.Index(name, "."); i >= 0 {
		q, rest := name[:i], name[i+1:]
		// the import name as used in the package the contract belongs to wins (several loaded
		// packages may share a last path element, e.g. chain and internal/chain)
		if imp := w.importedPkg(pkgPath, q); imp != nil {
			if c := try(imp.Path(), rest); c != nil {
				return c
			}
			// contract written under the fully qualified name of an imported (not loaded) package
			if c, ok := w.Contracts[imp.Path()+"."+rest]; ok && c.Pure {
				return c
			}
			if j := strings.Index(rest, "."); j >= 0 {
				for _, k := range []string{imp.Path() + ".(*" + rest[:j] + ")" + rest[j:], imp.Path() + ".(" + rest[:j] + ")" + rest[j:]} {
					if c, ok := w.Contracts[k]; ok && c.Pure {
						return c
					}
				}
			}
		}
		for path := range w.Pkgs {
			if path == q || strings.HasSuffix(path, "/"+q) {
				if c := try(path, rest); c != nil {
					return c
				}
			}
		}
	}
	return nil
}
