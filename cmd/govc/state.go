package main

import (
	"fmt"
	"go/token"
	"go/types"
	"sort"
	"strings"
)

// ---------- symbolic values ----------

type Val interface{}

type (
	// Sc is any value represented by one SMT term (Int, Bool, Str, Err, opaque sorts).
	Sc struct{ T Term }
	// ArrV is a Go array value; T has sort (Array Int E).
	ArrV struct {
		T Term
		N int64
		// ElemT: Go element type, when known and structured (spec-function parameters and
		// binders declared as []T): indexing then yields a typed value instead of a bare term
		ElemT types.Type
		// BN: byte length of a binder / spec parameter declared with a named array type; used only
		// for byte-string views (equality of such binders stays equality of the array terms)
		BN int64
	}
	// SliceV is a view on a region cell.
	SliceV struct {
		Reg           *Cell
		Off, Len, Cap Term
		Nil           Term
	}
	StructV struct {
		Typ *types.Struct
		F   []Val
	}
	PtrV struct {
		To  *Cell
		Nil Term
	}
	MapV struct {
		M   *Cell
		Nil Term
	}
	// MapC is the content of a map cell.
	MapC struct {
		Has, Val, Card Term
	}
	TupleV struct{ Vs []Val }
	// FuncV is a function literal / declared function value (only called directly).
	FuncV struct {
		Name string
	}
)

type CellKind int

const (
	CVar CellKind = iota
	CRegion
	CMap
)

type Cell struct {
	ID   int
	Name string
	Kind CellKind
	Typ  types.Type // var: type of content; region: element type; map: the map type
}

func (c *Cell) String() string { return fmt.Sprintf("%s#%d", c.Name, c.ID) }

// ---------- state ----------

type Hyp struct {
	T    Term
	Note string
}

type State struct {
	store map[*Cell]Val
	hyps  []Term
	// declMark: number of declarations visible (all global decls are visible; kept for reporting only)
	path  []string // branch decisions, for path signatures
	ghost map[string]Val
	dead  bool
}

func (st *State) clone() *State {
	n := &State{store: make(map[*Cell]Val, len(st.store)), ghost: make(map[string]Val, len(st.ghost))}
	for k, v := range st.store {
		n.store[k] = v
	}
	for k, v := range st.ghost {
		n.ghost[k] = v
	}
	n.hyps = append([]Term(nil), st.hyps...)
	n.path = append([]string(nil), st.path...)
	return n
}

func (st *State) assume(t Term) {
	if t.IsTrue() {
		return
	}
	if t.IsFalse() {
		st.dead = true
	}
	st.hyps = append(st.hyps, t)
}

// ---------- obligations ----------

type Obligation struct {
	Name    string
	Func    string
	Kind    string
	Pos     token.Position
	Decls   int // number of global declarations visible
	Global  int // number of global hyps visible
	Hyps    []Term
	Goal    Term
	Path    string
	Text    string // spec text / description
	Expect  string // "unsat" (default) or "sat" (canary / cover)
	Inputs  []InputSym
	Result  *SolveResult
	Lemma   bool
	Extra   []string // extra SMT commands (e.g. lemma-local declarations)
	Derived bool
	NoQuant bool // model search: drop quantified hypotheses
	Focus   bool // second attempt: focused hypothesis selection
	Group   string // proof group (`@g:NAME` clause tag): hypotheses of other groups are not used
}

type InputSym struct {
	Name string // Go-level name (param path)
	Sym  string // SMT symbol
	Sort string
}

// ---------- declarations registry ----------

type Decls struct {
	lines   []string
	seen    map[string]bool
	counter map[string]int
	defines  map[string]string // axiom line -> define-fun (quantifier-free mode)
	declSkip map[string]bool
	opaqueAxiom map[string]string // axiom line -> opaque spec function name
	recPending  []string
}

func newDecls() *Decls {
	// Ref and ref_nil are part of the prelude
	return &Decls{seen: map[string]bool{"sort:Ref": true, "ref_nil": true}, counter: map[string]int{}}
}

func sanitize(s string) string {
	var b strings.Builder
	for _, r := range s {
		switch {
		case r >= 'a' && r <= 'z', r >= 'A' && r <= 'Z', r >= '0' && r <= '9', r == '_':
			b.WriteRune(r)
		case r == '.', r == '/', r == '*', r == '(', r == ')', r == '-', r == '[', r == ']', r == ' ', r == ',':
			b.WriteRune('_')
		}
	}
	if b.Len() == 0 {
		return "v"
	}
	return b.String()
}

func (d *Decls) fresh(hint, sort string) Term {
	h := sanitize(hint)
	d.counter[h]++
	name := fmt.Sprintf("%s!%d", h, d.counter[h])
	d.lines = append(d.lines, fmt.Sprintf("(declare-const %s %s)", name, sort))
	return Term{S: name, Sort: sort}
}

func (d *Decls) declareOnce(key, line string) {
	if d.seen[key] {
		return
	}
	d.seen[key] = true
	d.lines = append(d.lines, line)
}

func (d *Decls) declareFun(name string, argSorts []string, res string) {
	d.declareOnce("fun:"+name, fmt.Sprintf("(declare-fun %s (%s) %s)", name, strings.Join(argSorts, " "), res))
}

func (d *Decls) declareSort(name string) {
	d.declareOnce("sort:"+name, fmt.Sprintf("(declare-sort %s 0)", name))
}

func sortedKeys[V any](m map[string]V) []string {
	ks := make([]string, 0, len(m))
	for k := range m {
		ks = append(ks, k)
	}
	sort.Strings(ks)
	return ks
}
