package main

import (
	"fmt"
	"go/ast"
	"go/constant"
	"go/token"
	"go/types"
	"math/big"
	"strings"

	"golang.org/x/tools/go/packages"
)

// Unsupported is raised (via panic) when the code leaves the supported subset.
type Unsupported struct {
	Msg string
	Pos token.Position
}

func (u *Unsupported) Error() string { return fmt.Sprintf("UNSUPPORTED(%s at %s)", u.Msg, u.Pos) }

type Interp struct {
	W        *World
	D        *Decls
	global   []Term
	initial  map[*Cell]Val
	obls     []*Obligation
	cellN    int
	assumes  map[string]bool // assumptions / trusted items used
	top      *Frame
	topKey   string
	inputs   []InputSym
	strLits  map[string]Term
	errVars  map[string]Term
	pathCnt  int
	sorts    map[string]bool
	safetyN  map[string]int
	frozenOf map[*Cell]Term
	refTerm  map[*Cell]Term // pointee cell of a pointer thawed from a Ref term -> that term
	dbCells  map[string]*Cell
	pureAxDone map[string]bool
	fieldViews map[*Cell][]fieldView
	ghostOwner map[*Cell]*Cell // ghost map cell -> the object (pointer target) it is attached to
	entryCellN int             // cells with a larger ID were allocated by the function under verification
	structNamed map[*types.Struct]types.Type
	globalInitDone map[string]bool
	// configuration
	maxPaths int
}

type Frame struct {
	in       *Interp
	pkg      *packages.Package
	decl     *ast.FuncDecl
	lit      *ast.FuncLit
	key      string
	contract *Contract
	vars     map[types.Object]*Cell
	parent   *Frame
	loopN    int
	loopOrds map[ast.Node]int
	modFields map[*Cell]map[int]bool // struct cells in a loop modset: indices of the fields the body changes
	callN    int
	retN     int
	depth    int
	results  []*Cell               // named/unnamed result cells
	tmap     map[string]types.Type // type parameter substitution (by name)
	recvName string
	// for spec evaluation at returns
	entry       *State
	params      map[string]Val // entry values of params (by name)
	defers      []*ast.CallExpr
	loopIdx     map[int]*Cell // hidden index cells of range loops by ordinal
	closures    map[types.Object]*ast.FuncLit
	ghostCells  map[string]*Cell
	callOrds    map[*ast.CallExpr]int
	snapshots   map[string]*State // named ghost snapshots (at call N snapshot S)
	curGroup    string            // proof group of the obligation being generated
	assertHit   map[int]bool      // call ordinals whose `at call N assert` clauses were generated
	loopEntries map[int]*State    // state at first entry of loop N (for entry(N, e) in invariants)
}

func NewInterp(w *World) *Interp {
	in := &Interp{W: w, D: newDecls(), initial: map[*Cell]Val{}, assumes: map[string]bool{},
		strLits: map[string]Term{}, errVars: map[string]Term{}, sorts: map[string]bool{}, safetyN: map[string]int{}, frozenOf: map[*Cell]Term{}, maxPaths: 600}
	return in
}

func (in *Interp) unsupported(pos token.Pos, format string, a ...interface{}) {
	var p token.Position
	if pos.IsValid() {
		p = in.W.Fset.Position(pos)
	}
	panic(&Unsupported{Msg: fmt.Sprintf(format, a...), Pos: p})
}

func (in *Interp) newCell(name string, kind CellKind, typ types.Type) *Cell {
	in.cellN++
	return &Cell{ID: in.cellN, Name: name, Kind: kind, Typ: typ}
}

func (in *Interp) assumeGlobal(t Term) {
	if t.IsTrue() {
		return
	}
	in.global = append(in.global, t)
}

func (in *Interp) note(s string) { in.assumes[s] = true }

// ---------- types -> sorts ----------

func intInfo(t types.Type) (bits uint, signed bool, ok bool) {
	b, isb := t.Underlying().(*types.Basic)
	if !isb {
		return 0, false, false
	}
	switch b.Kind() {
	case types.Int8:
		return 8, true, true
	case types.Int16:
		return 16, true, true
	case types.Int32:
		return 32, true, true
	case types.Int64, types.Int:
		return 64, true, true
	case types.Uint8:
		return 8, false, true
	case types.Uint16:
		return 16, false, true
	case types.Uint32:
		return 32, false, true
	case types.Uint64, types.Uint, types.Uintptr:
		return 64, false, true
	case types.UntypedInt, types.UntypedRune:
		return 0, true, true
	}
	return 0, false, false
}

func intRange(t types.Type) (lo, hi *big.Int, ok bool) {
	bits, signed, ok := intInfo(t)
	if !ok || bits == 0 {
		return nil, nil, false
	}
	if signed {
		h := pow2(bits - 1)
		return new(big.Int).Neg(h), new(big.Int).Sub(h, big.NewInt(1)), true
	}
	return big.NewInt(0), new(big.Int).Sub(pow2(bits), big.NewInt(1)), true
}

func inRange(t Term, typ types.Type) Term {
	lo, hi, ok := intRange(typ)
	if !ok {
		return TTrue
	}
	return And(Le(BigLit(lo), t), Le(t, BigLit(hi)))
}

func isByteSlice(t types.Type) bool {
	s, ok := t.Underlying().(*types.Slice)
	if !ok {
		return false
	}
	b, ok := s.Elem().Underlying().(*types.Basic)
	return ok && b.Kind() == types.Uint8
}

func isString(t types.Type) bool {
	b, ok := t.Underlying().(*types.Basic)
	return ok && b.Info()&types.IsString != 0
}

func isBool(t types.Type) bool {
	b, ok := t.Underlying().(*types.Basic)
	return ok && b.Info()&types.IsBoolean != 0
}

func isErrorType(t types.Type) bool {
	n, ok := t.(*types.Named)
	return ok && n.Obj().Pkg() == nil && n.Obj().Name() == "error"
}

func namedName(t types.Type) string {
	switch n := t.(type) {
	case *types.Named:
		if n.Obj().Pkg() != nil {
			return n.Obj().Pkg().Path() + "." + n.Obj().Name()
		}
		return n.Obj().Name()
	case *types.Alias:
		return namedName(types.Unalias(t))
	}
	return ""
}

// resolve substitutes type parameters of the current frame.
func (f *Frame) resolve(t types.Type) types.Type {
	if tp, ok := t.(*types.TypeParam); ok && f != nil {
		for fr := f; fr != nil; fr = fr.parent {
			if r, ok := fr.tmap[tp.Obj().Name()]; ok {
				return r
			}
		}
	}
	return t
}

// sortOf gives the SMT sort used when a value of Go type t is stored in a
// container (array element, map key/value, struct-in-container) or passed to
// an uninterpreted function.
// isValuelike: pointers to such types are stored in containers as (nil flag, pointee value):
// integers and booleans (e.g. *uint16) and struct types declared `valuelike` in a contract
// file (records that are never mutated after they have been stored).
func (in *Interp) isValuelike(t types.Type) bool {
	t = types.Unalias(t)
	if nn := namedName(t); nn != "" && in.W.valuelike[nn] {
		return true
	}
	if b, ok := t.Underlying().(*types.Basic); ok {
		return b.Info()&(types.IsInteger|types.IsBoolean) != 0
	}
	return false
}

// isBigInt: math/big.Int is modelled as a mathematical integer (sort Int, no range).
func isBigInt(t types.Type) bool { return namedName(types.Unalias(t)) == "math/big.Int" }

func (in *Interp) sortOf(t types.Type) string {
	t = types.Unalias(t)
	if isBigInt(t) {
		return SInt
	}
	if nn := namedName(t); nn != "" {
		if in.W.opaqueTypes[nn] {
			s := "O_" + sanitize(nn)
			in.D.declareSort(s)
			return s
		}
	}
	if isErrorType(t) {
		return SErr
	}
	switch u := t.Underlying().(type) {
	case *types.Basic:
		switch {
		case u.Info()&types.IsInteger != 0:
			return SInt
		case u.Info()&types.IsBoolean != 0:
			return SBool
		case u.Info()&types.IsString != 0:
			return SStr
		case u.Kind() == types.UnsafePointer:
			return SInt
		}
	case *types.Array:
		return ArrSort(in.sortOf(u.Elem()))
	case *types.Slice:
		if isByteSlice(t) {
			return SStr
		}
		// frozen generic slices: (content array, len) datatype
		es := in.sortOf(u.Elem())
		name := "Seq_" + sanitize(es)
		in.D.declareOnce("dt:"+name, fmt.Sprintf("(declare-datatypes ((%s 0)) (((mk_%s (%s_arr (Array Int %s)) (%s_len Int)))))", name, name, name, es, name))
		return name
	case *types.Struct:
		return in.structSort(t, u)
	case *types.Pointer:
		if in.isValuelike(u.Elem()) {
			es := in.sortOf(u.Elem())
			name := "VPtr_" + sanitize(es)
			in.D.declareOnce("dt:"+name, fmt.Sprintf("(declare-datatypes ((%s 0)) (((mk_%s (%s_nil Bool) (%s_val %s)))))", name, name, name, name, es))
			return name
		}
		return SRef
	case *types.Interface:
		in.D.declareSort("Iface")
		return "Iface"
	case *types.Map:
		// maps inside containers: frozen pair
		ks, vs := in.sortOf(u.Key()), in.sortOf(u.Elem())
		name := "Map_" + sanitize(ks) + "_" + sanitize(vs)
		in.D.declareOnce("dt:"+name, fmt.Sprintf("(declare-datatypes ((%s 0)) (((mk_%s (%s_has (Array %s Bool)) (%s_val (Array %s %s)) (%s_card Int)))))", name, name, name, ks, name, ks, vs, name))
		return name
	case *types.Signature:
		in.D.declareSort("FuncVal")
		return "FuncVal"
	case *types.TypeParam:
		s := "TP_" + sanitize(u.Obj().Name())
		in.D.declareSort(s)
		return s
	case *types.Chan:
		in.D.declareSort("Chan")
		return "Chan"
	}
	if tp, ok := t.(*types.TypeParam); ok {
		s := "TP_" + sanitize(tp.Obj().Name())
		in.D.declareSort(s)
		return s
	}
	panic(&Unsupported{Msg: "no SMT sort for type " + t.String()})
}

func (in *Interp) structSort(t types.Type, u *types.Struct) string {
	name := namedName(t)
	if name == "" {
		name = "anon_" + sanitize(u.String())
	}
	s := "S_" + sanitize(name)
	if ta, ok := t.(*types.Named); ok && ta.TypeArgs() != nil {
		for i := 0; i < ta.TypeArgs().Len(); i++ {
			s += "_" + sanitize(ta.TypeArgs().At(i).String())
		}
	}
	if in.sorts[s] {
		return s
	}
	in.sorts[s] = true
	var fields []string
	for i := 0; i < u.NumFields(); i++ {
		f := u.Field(i)
		if isSyncType(f.Type()) {
			continue
		}
		fields = append(fields, fmt.Sprintf("(%s_%s %s)", s, f.Name(), in.sortOf(f.Type())))
	}
	if len(fields) == 0 {
		in.D.declareOnce("dt:"+s, fmt.Sprintf("(declare-datatypes ((%s 0)) (((mk_%s))))", s, s))
	} else {
		in.D.declareOnce("dt:"+s, fmt.Sprintf("(declare-datatypes ((%s 0)) (((mk_%s %s))))", s, s, strings.Join(fields, " ")))
	}
	return s
}

func isSyncType(t types.Type) bool {
	nn := namedName(types.Unalias(t))
	return strings.HasPrefix(nn, "sync.") || strings.HasPrefix(nn, "sync/atomic.")
}

// ---------- fresh symbolic values ----------

const maxSliceLen = 1 << 47 // address-space bound on slice lengths (assumption, listed)

func (in *Interp) freshScalar(hint string, t types.Type) Val {
	s := in.sortOf(t)
	c := in.D.fresh(hint, s)
	if s == SInt {
		in.assumeGlobal(inRange(c, t))
	}
	if s == SStr {
		in.assumeGlobal(Le(IntLit(0), App("slen", SInt, c)))
		in.arrayRangeAxiom(App("sarr", ArrSort(SInt), c), types.Typ[types.Uint8])
	}
	return Sc{c}
}

func (in *Interp) arrayRangeAxiom(a Term, elem types.Type) {
	if elemSortOf(a.Sort) != SInt {
		return
	}
	lo, hi, ok := intRange(elem)
	if !ok {
		return
	}
	j := Term{S: "j", Sort: SInt}
	sel := Select(a, j)
	in.assumeGlobal(Forall([]Term{j}, And(Le(BigLit(lo), sel), Le(sel, BigLit(hi))), []Term{sel}))
}

// freshVal creates an unconstrained value of type t (constraints on the new
// symbols go to the global hypothesis list; they describe entry/havoc values).
func (in *Interp) freshVal(hint string, t types.Type, f *Frame) Val {
	t = types.Unalias(f.resolve(t))
	if isBigInt(t) {
		return Sc{in.D.fresh(hint, SInt)}
	}
	if nn := namedName(t); nn != "" && in.W.opaqueTypes[nn] {
		return in.freshScalar(hint, t)
	}
	if isErrorType(t) {
		return Sc{in.D.fresh(hint, SErr)}
	}
	switch u := t.Underlying().(type) {
	case *types.Basic:
		return in.freshScalar(hint, t)
	case *types.Array:
		a := in.D.fresh(hint, ArrSort(in.sortOf(u.Elem())))
		in.arrayRangeAxiom(a, u.Elem())
		return ArrV{T: a, N: u.Len()}
	case *types.Slice:
		reg := in.newCell(hint+"[]", CRegion, u.Elem())
		ln := in.D.fresh(hint+"_len", SInt)
		cp := in.D.fresh(hint+"_cap", SInt)
		nl := in.D.fresh(hint+"_nil", SBool)
		in.assumeGlobal(And(Le(IntLit(0), ln), Le(ln, cp), Le(cp, IntLit(maxSliceLen)), Implies(nl, Eq(cp, IntLit(0)))))
		return SliceV{Reg: reg, Off: IntLit(0), Len: ln, Cap: cp, Nil: nl}
	case *types.Struct:
		sv := StructV{Typ: u, F: make([]Val, u.NumFields())}
		for i := 0; i < u.NumFields(); i++ {
			fl := u.Field(i)
			if isSyncType(fl.Type()) {
				sv.F[i] = Sc{TTrue}
				continue
			}
			sv.F[i] = in.freshVal(hint+"."+fl.Name(), fl.Type(), f)
		}
		return sv
	case *types.Pointer:
		c := in.newCell("*"+hint, CVar, u.Elem())
		nl := in.D.fresh(hint+"_nil", SBool)
		return PtrV{To: c, Nil: nl}
	case *types.Map:
		c := in.newCell(hint+"{}", CMap, t)
		nl := in.D.fresh(hint+"_nil", SBool)
		return MapV{M: c, Nil: nl}
	case *types.Interface, *types.Signature, *types.Chan, *types.TypeParam:
		return Sc{in.D.fresh(hint, in.sortOf(t))}
	}
	if _, ok := t.(*types.TypeParam); ok {
		return Sc{in.D.fresh(hint, in.sortOf(t))}
	}
	panic(&Unsupported{Msg: "freshVal: type " + t.String()})
}

// load returns the content of a cell, materialising the (shared) initial content lazily.
// fieldView: region cell mirroring array field `field` of the struct stored in a cell
type fieldView struct {
	field int
	reg   *Cell
	n     int64
}

// fieldViewCell returns (creating it on first use) the region that aliases an array field of the
// struct in cell sc; the region starts with the field's current content.
func (in *Interp) fieldViewCell(sc *Cell, field int, cur ArrV, elem types.Type, st *State) *Cell {
	if in.fieldViews == nil {
		in.fieldViews = map[*Cell][]fieldView{}
	}
	for _, fv := range in.fieldViews[sc] {
		if fv.field == field {
			return fv.reg
		}
	}
	reg := in.newCell("fieldview", CRegion, elem)
	st.store[reg] = ArrV{T: cur.T, N: cur.N}
	in.fieldViews[sc] = append(in.fieldViews[sc], fieldView{field: field, reg: reg, n: cur.N})
	in.note("slice of an array field of a struct variable aliases the field (writes through the slice are reflected in the struct)")
	return reg
}

func (in *Interp) load(st *State, c *Cell, f *Frame) Val {
	if views := in.fieldViews[c]; len(views) > 0 {
		if v, ok := st.store[c]; ok {
			if sv, isStruct := v.(StructV); isStruct {
				nf := append([]Val(nil), sv.F...)
				for _, fv := range views {
					if rv, ok := st.store[fv.reg]; ok {
						nf[fv.field] = ArrV{T: rv.(ArrV).T, N: fv.n}
					}
				}
				return StructV{Typ: sv.Typ, F: nf}
			}
		}
	}
	if v, ok := st.store[c]; ok {
		return v
	}
	if v, ok := in.initial[c]; ok {
		return v
	}
	var v Val
	switch c.Kind {
	case CVar:
		v = in.freshVal(strings.TrimPrefix(c.Name, "*"), c.Typ, f)
	case CRegion:
		a := in.D.fresh(c.Name, ArrSort(in.sortOf(c.Typ)))
		in.arrayRangeAxiom(a, c.Typ)
		v = ArrV{T: a}
	case CMap:
		mt := c.Typ.Underlying().(*types.Map)
		ks, vs := in.sortOf(mt.Key()), in.sortOf(mt.Elem())
		has := in.D.fresh(c.Name+"_has", MapSortOf(ks, SBool))
		val := in.D.fresh(c.Name+"_val", MapSortOf(ks, vs))
		card := in.D.fresh(c.Name+"_card", SInt)
		in.assumeGlobal(Le(IntLit(0), card))
		in.mapValRangeAxiom(val, mt.Elem())
		v = MapC{Has: has, Val: val, Card: card}
	}
	in.initial[c] = v
	return v
}

func (in *Interp) mapValRangeAxiom(val Term, elem types.Type) {
	if elemSortOf(val.Sort) != SInt {
		return
	}
	lo, hi, ok := intRange(elem)
	if !ok {
		return
	}
	k := Term{S: "k", Sort: keySortOf(val.Sort)}
	sel := Select(val, k)
	in.assumeGlobal(Forall([]Term{k}, And(Le(BigLit(lo), sel), Le(sel, BigLit(hi))), []Term{sel}))
}

// havocCell gives the cell a fresh content in st.
func (in *Interp) havocCell(st *State, c *Cell, f *Frame) {
	if c.Typ == nil && c.Kind == CVar {
		cur, ok := st.store[c]
		if !ok {
			cur = in.initial[c]
		}
		if sc, isSc := cur.(Sc); isSc {
			st.store[c] = Sc{in.D.fresh(c.Name, sc.T.Sort)}
			return
		}
		switch x := cur.(type) {
		case BatchV:
			st.store[c] = in.havocBatch(x)
			return
		case IterV:
			x.Cur = in.D.fresh("itkey", SStr)
			st.store[c] = x
			return
		}
		if sc, ok := st.store[c].(Sc); ok {
			st.store[c] = Sc{in.D.fresh(c.Name, sc.T.Sort)}
			return
		}
	}
	switch c.Kind {
	case CVar:
		st.store[c] = in.freshVal(strings.TrimPrefix(c.Name, "*"), c.Typ, f)
	case CRegion:
		a := in.D.fresh(c.Name, ArrSort(in.sortOf(c.Typ)))
		in.arrayRangeAxiom(a, c.Typ)
		st.store[c] = ArrV{T: a}
	case CMap:
		mt := c.Typ.Underlying().(*types.Map)
		ks, vs := in.sortOf(mt.Key()), in.sortOf(mt.Elem())
		has := in.D.fresh(c.Name+"_has", MapSortOf(ks, SBool))
		val := in.D.fresh(c.Name+"_val", MapSortOf(ks, vs))
		card := in.D.fresh(c.Name+"_card", SInt)
		in.assumeGlobal(Le(IntLit(0), card))
		in.mapValRangeAxiom(val, mt.Elem())
		st.store[c] = MapC{Has: has, Val: val, Card: card}
	}
}

// zeroVal is the Go zero value of t.
func (in *Interp) zeroVal(t types.Type, f *Frame) Val {
	t = types.Unalias(f.resolve(t))
	if isBigInt(t) {
		return Sc{IntLit(0)}
	}
	if nn := namedName(t); nn != "" && in.W.opaqueTypes[nn] {
		s := in.sortOf(t)
		in.D.declareOnce("zero:"+s, fmt.Sprintf("(declare-const zero_%s %s)", s, s))
		return Sc{Term{S: "zero_" + s, Sort: s}}
	}
	if isErrorType(t) {
		return Sc{in.errNil()}
	}
	switch u := t.Underlying().(type) {
	case *types.Basic:
		switch {
		case u.Info()&types.IsInteger != 0:
			return Sc{IntLit(0)}
		case u.Info()&types.IsBoolean != 0:
			return Sc{TFalse}
		case u.Info()&types.IsString != 0:
			return Sc{in.strLit("")}
		}
	case *types.Array:
		es := in.sortOf(u.Elem())
		z := in.zeroTerm(u.Elem(), f)
		return ArrV{T: in.constArray(es, z), N: u.Len()}
	case *types.Slice:
		reg := in.newCell("nilslice", CRegion, u.Elem())
		return SliceV{Reg: reg, Off: IntLit(0), Len: IntLit(0), Cap: IntLit(0), Nil: TTrue}
	case *types.Struct:
		sv := StructV{Typ: u, F: make([]Val, u.NumFields())}
		for i := 0; i < u.NumFields(); i++ {
			if isSyncType(u.Field(i).Type()) {
				sv.F[i] = Sc{TTrue}
				continue
			}
			sv.F[i] = in.zeroVal(u.Field(i).Type(), f)
		}
		return sv
	case *types.Pointer:
		return PtrV{To: in.newCell("nilptr", CVar, u.Elem()), Nil: TTrue}
	case *types.Map:
		c := in.newCell("nilmap", CMap, t)
		ks, vs := in.sortOf(u.Key()), in.sortOf(u.Elem())
		in.initial[c] = MapC{Has: Term{S: fmt.Sprintf("((as const (Array %s Bool)) false)", ks), Sort: MapSortOf(ks, SBool)},
			Val: in.D.fresh("nilmap_val", MapSortOf(ks, vs)), Card: IntLit(0)}
		return MapV{M: c, Nil: TTrue}
	case *types.Interface:
		in.D.declareSort("Iface")
		in.D.declareOnce("iface_nil", "(declare-const iface_nil Iface)")
		return Sc{Term{S: "iface_nil", Sort: "Iface"}}
	case *types.Signature:
		in.D.declareSort("FuncVal")
		in.D.declareOnce("func_nil", "(declare-const func_nil FuncVal)")
		return Sc{Term{S: "func_nil", Sort: "FuncVal"}}
	}
	s := in.sortOf(t)
	in.D.declareOnce("zero:"+s, fmt.Sprintf("(declare-const zero_%s %s)", s, s))
	return Sc{Term{S: "zero_" + s, Sort: s}}
}

// constArray: the array whose every element is z.  Solvers accept `as const` only for
// value terms, so non-literal elements get a fresh array with a defining axiom.
func (in *Interp) constArray(es string, z Term) Term {
	if z.IsLit() || z.blit != 0 {
		return Term{S: fmt.Sprintf("((as const (Array Int %s)) %s)", es, z.S), Sort: ArrSort(es)}
	}
	a := in.D.fresh("zeros", ArrSort(es))
	j := Term{S: "j", Sort: SInt}
	in.assumeGlobal(Forall([]Term{j}, Eq(Select(a, j), z), []Term{Select(a, j)}))
	return a
}

// zeroTerm: zero value as a single term (container element).
func (in *Interp) zeroTerm(t types.Type, f *Frame) Term {
	return in.freeze(in.zeroVal(t, f), t, nil, f)
}

func (in *Interp) errNil() Term {
	return Term{S: "err_nil", Sort: SErr}
}

// strLit returns a Str constant with the given content.
func (in *Interp) strLit(s string) Term {
	if t, ok := in.strLits[s]; ok {
		return t
	}
	name := fmt.Sprintf("strlit!%d", len(in.strLits))
	in.D.lines = append(in.D.lines, fmt.Sprintf("(declare-const %s Str)", name))
	t := Term{S: name, Sort: SStr}
	in.strLits[s] = t
	in.assumeGlobal(Eq(App("slen", SInt, t), IntLit(int64(len(s)))))
	for i := 0; i < len(s) && i < 64; i++ {
		in.assumeGlobal(Eq(Select(App("sarr", ArrSort(SInt), t), IntLit(int64(i))), IntLit(int64(s[i]))))
	}
	// distinct literals of different content are different strings
	for o, ot := range in.strLits {
		if o != s {
			in.assumeGlobal(Not(Eq(t, ot)))
		}
	}
	return t
}

// ---------- freeze / thaw: Val <-> single term ----------

// freeze converts a value of Go type t into a single SMT term of sort sortOf(t).
func (in *Interp) freeze(v Val, t types.Type, st *State, f *Frame) Term {
	t = types.Unalias(f.resolve(t))
	switch x := v.(type) {
	case Sc:
		return x.T
	case ArrV:
		return x.T
	case SliceV:
		if isByteSlice(t) {
			return in.mkStr(x, st, f)
		}
		content := in.regionContent(st, x.Reg, f)
		s := in.sortOf(t)
		// shift to offset 0 is not expressible without lambda; keep (arr,off) by requiring off==0 or using shifted fresh array
		if x.Off.IsLit() && x.Off.lit.Sign() == 0 {
			return App("mk_"+s, s, content, x.Len)
		}
		es := elemSortOf(content.Sort)
		sh := in.D.fresh("shift", ArrSort(es))
		j := Term{S: "j", Sort: SInt}
		in.assumeGlobal(Forall([]Term{j}, Eq(Select(sh, j), Select(content, Add(x.Off, j))), []Term{Select(sh, j)}))
		return App("mk_"+s, s, sh, x.Len)
	case StructV:
		if _, isIface := t.Underlying().(*types.Interface); isIface && !isErrorType(t) {
			// a struct value where an interface is expected: box it under its named type
			if named := in.structNamed[x.Typ]; named != nil {
				inner := in.freeze(x, named, st, f)
				in.D.declareSort("Iface")
				fn := "box_" + sanitize(inner.Sort)
				in.D.declareFun(fn, []string{inner.Sort}, "Iface")
				return App(fn, "Iface", inner)
			}
		}
		s := in.sortOf(t)
		var args []Term
		for i := 0; i < x.Typ.NumFields(); i++ {
			if isSyncType(x.Typ.Field(i).Type()) {
				continue
			}
			args = append(args, in.freeze(x.F[i], x.Typ.Field(i).Type(), st, f))
		}
		return App("mk_"+s, s, args...)
	case PtrV:
		if _, isIface := t.Underlying().(*types.Interface); isIface {
			in.D.declareSort("Iface")
			in.D.declareFun("box_Ref", []string{SRef}, "Iface")
			return App("box_Ref", "Iface", in.refOf(x))
		}
		if pt, ok := t.Underlying().(*types.Pointer); ok && in.isValuelike(pt.Elem()) {
			s := in.sortOf(t)
			in.note("pointers to immutable records / scalars are stored in containers by value (nil flag + pointee); assumption: the pointee is not mutated afterwards")
			var content Val
			if st != nil {
				content = in.load(st, x.To, f)
			} else if c, ok := in.initial[x.To]; ok {
				content = c
			} else {
				content = in.zeroVal(pt.Elem(), f)
			}
			return App("mk_"+s, s, x.Nil, in.freeze(content, pt.Elem(), st, f))
		}
		return in.refOf(x)
	case MapV:
		mc := in.load(st, x.M, f).(MapC)
		s := in.sortOf(t)
		return App("mk_"+s, s, mc.Has, mc.Val, mc.Card)
	}
	panic(&Unsupported{Msg: fmt.Sprintf("freeze %T of type %s", v, t)})
}

func (in *Interp) refOf(p PtrV) Term {
	in.D.declareSort(SRef)
	in.D.declareOnce("ref_nil", "(declare-const ref_nil Ref)")
	if t, ok := in.refTerm[p.To]; ok {
		return t
	}
	name := fmt.Sprintf("ref!%d", p.To.ID)
	if !in.D.seen["ref:"+name] {
		in.D.declareOnce("ref:"+name, fmt.Sprintf("(declare-const %s Ref)", name))
	}
	return Ite(p.Nil, Term{S: "ref_nil", Sort: SRef}, Term{S: name, Sort: SRef})
}

// thaw converts a term of sort sortOf(t) back into a structured value.
func (in *Interp) thaw(tm Term, t types.Type, f *Frame) Val {
	t = types.Unalias(f.resolve(t))
	if isBigInt(t) {
		return Sc{tm}
	}
	if nn := namedName(t); nn != "" && in.W.opaqueTypes[nn] {
		return Sc{tm}
	}
	if isErrorType(t) {
		return Sc{tm}
	}
	switch u := t.Underlying().(type) {
	case *types.Basic, *types.Interface, *types.Signature, *types.Chan, *types.TypeParam:
		return Sc{tm}
	case *types.Array:
		return ArrV{T: tm, N: u.Len()}
	case *types.Slice:
		reg := in.newCell("thaw[]", CRegion, u.Elem())
		if isByteSlice(t) {
			in.frozenOf[reg] = tm
			in.initial[reg] = ArrV{T: App("sarr", ArrSort(SInt), tm)}
			ln := App("slen", SInt, tm)
			return SliceV{Reg: reg, Off: IntLit(0), Len: ln, Cap: ln, Nil: App("snil", SBool, tm)}
		}
		s := in.sortOf(t)
		in.initial[reg] = ArrV{T: App(s+"_arr", ArrSort(in.sortOf(u.Elem())), tm)}
		ln := App(s+"_len", SInt, tm)
		if !strings.Contains(ln.S, "!q") && !strings.Contains(ln.S, "p0!") && !strings.Contains(ln.S, "p1!") {
			// a slice read back from a container has a non-negative length (ground terms only)
			in.assumeGlobal(And(Le(IntLit(0), ln), Le(ln, IntLit(maxSliceLen))))
		}
		return SliceV{Reg: reg, Off: IntLit(0), Len: ln, Cap: ln, Nil: TFalse}
	case *types.Struct:
		s := in.sortOf(t)
		if _, isNamed := t.(*types.Named); isNamed {
			if in.structNamed == nil {
				in.structNamed = map[*types.Struct]types.Type{}
			}
			in.structNamed[u] = t
		}
		sv := StructV{Typ: u, F: make([]Val, u.NumFields())}
		for i := 0; i < u.NumFields(); i++ {
			fl := u.Field(i)
			if isSyncType(fl.Type()) {
				sv.F[i] = Sc{TTrue}
				continue
			}
			ft := App(s+"_"+fl.Name(), in.sortOf(fl.Type()), tm)
			if ft.Sort == SInt && !strings.Contains(ft.S, "!q") && !strings.Contains(ft.S, "p0!") && !strings.Contains(ft.S, "p1!") {
				// integers stored in containers came from Go values of the field's type.  (Stated per
				// ground term only: a universal axiom over the datatype selector would be inconsistent,
				// since the free constructor can build records holding any Int.)
				in.assumeGlobal(inRange(ft, fl.Type()))
			}
			sv.F[i] = in.thaw(ft, fl.Type(), f)
		}
		return sv
	case *types.Map:
		s := in.sortOf(t)
		c := in.newCell("thaw{}", CMap, t)
		ks, vs := in.sortOf(u.Key()), in.sortOf(u.Elem())
		in.initial[c] = MapC{Has: App(s+"_has", MapSortOf(ks, SBool), tm), Val: App(s+"_val", MapSortOf(ks, vs), tm), Card: App(s+"_card", SInt, tm)}
		return MapV{M: c, Nil: TFalse}
	case *types.Pointer:
		if in.isValuelike(u.Elem()) {
			s := in.sortOf(t)
			c := in.newCell("vptr", CVar, u.Elem())
			in.initial[c] = in.thaw(App(s+"_val", in.sortOf(u.Elem()), tm), u.Elem(), f)
			return PtrV{To: c, Nil: App(s+"_nil", SBool, tm)}
		}
		if nn := namedName(f.resolve(u.Elem())); nn != "" && in.W.opaqueTypes[nn] && (tm.Sort == SRef || tm.Sort == "Iface") {
			// pointer to a type declared opaque: the pointee is an unknown value determined by the
			// reference; freezing the pointer again gives back the same reference term
			es := in.sortOf(u.Elem())
			dn := "deref_" + es
			if tm.Sort != SRef {
				// the pointer travelled through a container of interface-typed (type parameter)
				// elements: the interface term stands for the reference
				dn += "_" + tm.Sort
			}
			in.D.declareFun(dn, []string{tm.Sort}, es)
			c := in.newCell("optr", CVar, u.Elem())
			in.initial[c] = Sc{App(dn, es, tm)}
			if in.refTerm == nil {
				in.refTerm = map[*Cell]Term{}
			}
			in.refTerm[c] = tm
			in.D.declareSort(SRef)
			in.D.declareOnce("ref_nil", "(declare-const ref_nil Ref)")
			if tm.Sort == "Iface" {
				in.D.declareSort("Iface")
				in.D.declareOnce("iface_nil", "(declare-const iface_nil Iface)")
				return PtrV{To: c, Nil: Eq(tm, Term{S: "iface_nil", Sort: "Iface"})}
			}
			return PtrV{To: c, Nil: Eq(tm, Term{S: "ref_nil", Sort: SRef})}
		}
		// pointers read back from containers: target identified by the Ref term (field-heap model)
		c := in.W.refCell(in, tm, u.Elem())
		return PtrV{To: c, Nil: Eq(tm, Term{S: "ref_nil", Sort: SRef})}
	}
	panic(&Unsupported{Msg: "thaw: type " + t.String()})
}

// mkStr freezes a byte-slice view into a Str term.  A full, unmodified view of a
// region that was thawed from a Str gives back that Str (no extensionality needed).
func (in *Interp) mkStr(sl SliceV, st *State, f *Frame) Term {
	content := in.regionContent(st, sl.Reg, f)
	if orig, ok := in.frozenOf[sl.Reg]; ok {
		if sl.Off.IsLit() && sl.Off.lit.Sign() == 0 && sl.Len.S == App("slen", SInt, orig).S &&
			content.S == App("sarr", ArrSort(SInt), orig).S {
			return orig
		}
	}
	return App("mkstr", SStr, content, sl.Off, sl.Len)
}

func (in *Interp) regionContent(st *State, c *Cell, f *Frame) Term {
	if st == nil {
		if v, ok := in.initial[c]; ok {
			return v.(ArrV).T
		}
		st = &State{store: map[*Cell]Val{}}
	}
	return in.load(st, c, f).(ArrV).T
}

// ---------- constants ----------

func (in *Interp) constVal(v constant.Value, t types.Type) (Val, bool) {
	switch v.Kind() {
	case constant.Int:
		n, ok := new(big.Int).SetString(v.ExactString(), 10)
		if !ok {
			return nil, false
		}
		return Sc{BigLit(n)}, true
	case constant.Bool:
		return Sc{BoolLit(constant.BoolVal(v))}, true
	case constant.String:
		return Sc{in.strLit(constant.StringVal(v))}, true
	case constant.Float:
		if t != nil {
			if _, _, ok := intInfo(t); ok {
				if i := constant.ToInt(v); i.Kind() == constant.Int {
					n, _ := new(big.Int).SetString(i.ExactString(), 10)
					return Sc{BigLit(n)}, true
				}
			}
		}
	}
	return nil, false
}
