package main

import (
	"fmt"
	"go/ast"
	"go/token"
	"go/types"
)

// loopShape abstracts for / range loops into: init already done; cond(st) ;
// bodyPrefix(st) (bind range vars) ; body ; post(st).
type loopShape struct {
	pos        token.Pos
	ord        int
	label      string
	cond       func(st *State) []condState // nil => true
	prefix     func(st *State)
	body       *ast.BlockStmt
	post       func(st *State) []*State
	ghostCells []*Cell
	ghostName  string
	exitAssume func(st *State)
}

func (f *Frame) loopSpec(ord int) *LoopSpec {
	if f.contract == nil {
		return nil
	}
	return f.contract.Loops[ord]
}

// staticLoopOrd numbers the loops of the frame's function in source order (pre-order of the AST,
// function literals included), independent of the path taken -- so `loop N` in a contract denotes
// the same loop on every path.
func (f *Frame) staticLoopOrd(n ast.Node) int {
	if f.loopOrds == nil {
		f.loopOrds = map[ast.Node]int{}
		var body ast.Node
		if f.decl != nil && f.decl.Body != nil {
			body = f.decl.Body
		} else if f.lit != nil {
			body = f.lit.Body
		}
		if body != nil {
			k := 0
			ast.Inspect(body, func(x ast.Node) bool {
				switch x.(type) {
				case *ast.ForStmt, *ast.RangeStmt:
					k++
					f.loopOrds[x] = k
				}
				return true
			})
		}
	}
	if o, ok := f.loopOrds[n]; ok {
		return o
	}
	f.loopN++
	return 1000 + f.loopN
}

func (f *Frame) execFor(x *ast.ForStmt, st *State, label string) []Outcome {
	ord := f.staticLoopOrd(x)
	var outs []Outcome
	pre := []*State{st}
	if x.Init != nil {
		pre = nil
		for _, o := range f.execStmt(x.Init, st) {
			if o.Kind != ONormal {
				outs = append(outs, o)
				continue
			}
			pre = append(pre, o.St)
		}
	}
	sh := &loopShape{pos: x.Pos(), ord: ord, label: label, body: x.Body}
	if x.Cond != nil {
		sh.cond = func(st *State) []condState { return f.evalCond(x.Cond, st) }
	}
	sh.post = func(st *State) []*State {
		if x.Post == nil {
			return []*State{st}
		}
		var r []*State
		for _, o := range f.execStmt(x.Post, st) {
			r = append(r, o.St)
		}
		return r
	}
	for _, s := range pre {
		outs = append(outs, f.execLoop(sh, s)...)
	}
	return outs
}

func (f *Frame) execRange(x *ast.RangeStmt, st *State, label string) []Outcome {
	in := f.in
	ord := f.staticLoopOrd(x)
	sh := &loopShape{pos: x.Pos(), ord: ord, label: label, body: x.Body}
	xt := f.typeOf(x.X)
	// hidden index cell
	idx := in.newCell(fmt.Sprintf("idx%d", ord), CVar, types.Typ[types.Int])
	if f.loopIdx == nil {
		f.loopIdx = map[int]*Cell{}
	}
	f.loopIdx[ord] = idx
	st.store[idx] = Sc{IntLit(0)}
	bindKV := func(st *State, k, v Val) {
		if x.Key != nil {
			f.assignOrDefine(x.Key, k, x.Tok, st)
		}
		if x.Value != nil {
			f.assignOrDefine(x.Value, v, x.Tok, st)
		}
	}
	if p, ok := xt.Underlying().(*types.Pointer); ok {
		xt = p.Elem()
	}
	switch u := xt.Underlying().(type) {
	case *types.Slice, *types.Array:
		coll := f.evalExpr(x.X, st)
		if p, ok := coll.(PtrV); ok {
			coll = in.load(st, p.To, f)
		}
		var n Term
		var elemT types.Type
		switch c := coll.(type) {
		case SliceV:
			n = c.Len
			elemT = u.(*types.Slice).Elem()
		case ArrV:
			n = IntLit(c.N)
			elemT = u.(*types.Array).Elem()
		}
		sh.cond = func(st *State) []condState {
			i := in.load(st, idx, f).(Sc).T
			return []condState{{st, Lt(i, n)}}
		}
		sh.prefix = func(st *State) {
			i := in.load(st, idx, f).(Sc).T
			var ev Val
			if x.Value != nil {
				switch c := coll.(type) {
				case SliceV:
					// range evaluates the slice header once; elements are read live
					ev = in.thaw(Select(in.regionContent(st, c.Reg, f), Add(c.Off, i)), elemT, f)
				case ArrV:
					ev = in.thaw(Select(c.T, i), elemT, f)
				}
			}
			bindKV(st, Sc{i}, ev)
		}
	case *types.Basic:
		if u.Info()&types.IsInteger != 0 {
			n := f.evalExpr(x.X, st).(Sc).T
			sh.cond = func(st *State) []condState {
				i := in.load(st, idx, f).(Sc).T
				return []condState{{st, Lt(i, n)}}
			}
			sh.prefix = func(st *State) {
				bindKV(st, Sc{in.load(st, idx, f).(Sc).T}, nil)
			}
		} else {
			in.unsupported(x.Pos(), "range over %s", xt)
		}
	case *types.Map:
		return f.execRangeMap(x, sh, u, st)
	default:
		in.unsupported(x.Pos(), "range over %s", xt)
	}
	sh.post = func(st *State) []*State {
		i := in.load(st, idx, f).(Sc).T
		st.store[idx] = Sc{Add(i, IntLit(1))}
		return []*State{st}
	}
	return f.execLoop(sh, st)
}

// execRangeMap: iteration over an arbitrary enumeration of the keys present at entry.
func (f *Frame) execRangeMap(x *ast.RangeStmt, sh *loopShape, mt *types.Map, st *State) []Outcome {
	in := f.in
	m := f.evalExpr(x.X, st).(MapV)
	mc0 := in.load(st, m.M, f).(MapC)
	ks := in.sortOf(mt.Key())
	visited := in.newCell(fmt.Sprintf("visited%d", sh.ord), CVar, nil)
	st.store[visited] = Sc{Term{S: fmt.Sprintf("((as const (Array %s Bool)) false)", ks), Sort: MapSortOf(ks, SBool)}}
	if f.ghostCells == nil {
		f.ghostCells = map[string]*Cell{}
	}
	f.ghostCells[fmt.Sprintf("visited%d", sh.ord)] = visited
	// ghost iteration counter: a range over a map whose body does not add keys runs exactly
	// once per entry, so at exit the counter equals the map's length at entry (trusted fact
	// about Go's map iteration, listed as an assumption)
	count := in.newCell(fmt.Sprintf("count%d", sh.ord), CVar, nil)
	st.store[count] = Sc{IntLit(0)}
	f.ghostCells[fmt.Sprintf("count%d", sh.ord)] = count
	getVisited := func(st *State) Term { return st.store[visited].(Sc).T }
	k0 := Term{S: "k!rm", Sort: ks}
	sh.cond = func(st *State) []condState {
		vis := getVisited(st)
		return []condState{{st, Exists([]Term{k0}, And(Select(mc0.Has, k0), Not(Select(vis, k0))))}}
	}
	sh.prefix = func(st *State) {
		vis := getVisited(st)
		k := in.D.fresh("rk", ks)
		st.assume(And(Select(mc0.Has, k), Not(Select(vis, k))))
		if ks == SInt {
			// keys of the map are values of the key type
			st.assume(inRange(k, mt.Key()))
		}
		cur := in.load(st, m.M, f).(MapC)
		// entries removed during iteration are not produced
		st.assume(Select(cur.Has, k))
		in.note("range over map: arbitrary enumeration of entry keys; body may only delete the current key")
		st.store[visited] = Sc{f.nameIt(st, "visited", Store(vis, k, TTrue))}
		st.store[count] = Sc{Add(st.store[count].(Sc).T, IntLit(1))}
		var kv, vv Val
		kv = in.thaw(k, mt.Key(), f)
		if x.Value != nil {
			vv = in.thaw(Select(cur.Val, k), mt.Elem(), f)
		}
		if x.Key != nil {
			f.assignOrDefine(x.Key, kv, x.Tok, st)
		}
		if x.Value != nil {
			f.assignOrDefine(x.Value, vv, x.Tok, st)
		}
	}
	sh.post = func(st *State) []*State { return []*State{st} }
	sh.ghostCells = []*Cell{visited, count}
	sh.exitAssume = func(st *State) {
		st.assume(Eq(st.store[count].(Sc).T, mc0.Card))
		in.note("range over map: the number of iterations equals len(map) at entry")
	}
	sh.ghostName = fmt.Sprintf("visited%d", sh.ord)
	return f.execLoop(sh, st)
}

func (f *Frame) execLoop(sh *loopShape, st *State) []Outcome {
	spec := f.loopSpec(sh.ord)
	if spec != nil && len(spec.Invariants) > 0 {
		return f.execLoopInv(sh, spec, st)
	}
	max := 64
	if spec != nil && spec.Unroll > 0 {
		max = spec.Unroll
	}
	return f.execLoopUnroll(sh, st, max)
}

func (f *Frame) matchLabel(o Outcome, sh *loopShape) bool {
	return o.Label == "" || o.Label == sh.label
}

// execLoopUnroll unrolls a loop whose condition is decided syntactically at each
// iteration (constant bounds); otherwise the loop needs an invariant.
func (f *Frame) execLoopUnroll(sh *loopShape, st *State, max int) []Outcome {
	in := f.in
	var outs []Outcome
	cur := []*State{st}
	for iter := 0; ; iter++ {
		var next []*State
		for _, s := range cur {
			if s.dead {
				continue
			}
			conds := []condState{{s, TTrue}}
			if sh.cond != nil {
				conds = sh.cond(s)
			}
			for _, cs := range conds {
				if cs.T.IsFalse() {
					outs = append(outs, Outcome{St: cs.St, Kind: ONormal})
					continue
				}
				if !cs.T.IsTrue() {
					in.unsupported(sh.pos, "loop %d of %s needs an invariant (condition not constant: %s)", sh.ord, f.key, trunc(cs.T.S, 80))
				}
				if iter >= max {
					in.unsupported(sh.pos, "loop %d of %s exceeds unroll bound %d", sh.ord, f.key, max)
				}
				b := cs.St
				if sh.prefix != nil {
					sh.prefix(b)
				}
				for _, o := range f.execBlock(sh.body.List, b) {
					switch {
					case o.Kind == ONormal, o.Kind == OContinue && f.matchLabel(o, sh):
						next = append(next, sh.post(o.St)...)
					case o.Kind == OBreak && f.matchLabel(o, sh):
						outs = append(outs, Outcome{St: o.St, Kind: ONormal})
					default:
						outs = append(outs, o)
					}
				}
			}
		}
		cur = next
		if len(cur) == 0 {
			break
		}
	}
	return outs
}

func trunc(s string, n int) string {
	if len(s) > n {
		return s[:n] + "..."
	}
	return s
}

// execLoopInv cuts the loop with its invariants.
func (f *Frame) execLoopInv(sh *loopShape, spec *LoopSpec, st *State) []Outcome {
	in := f.in
	envFor := func(s *State) *SpecEnv {
		e := f.specEnvAt(s, sh.body.Pos())
		return e
	}
	if f.loopEntries == nil {
		f.loopEntries = map[int]*State{}
	}
	// ghost iteration counter iter<N>: completed iterations of this loop (0 at entry, +1 per back edge)
	iterC := in.newCell(fmt.Sprintf("iter%d", sh.ord), CVar, nil)
	st.store[iterC] = Sc{IntLit(0)}
	if f.ghostCells == nil {
		f.ghostCells = map[string]*Cell{}
	}
	f.ghostCells[fmt.Sprintf("iter%d", sh.ord)] = iterC
	f.loopEntries[sh.ord] = st.clone()
	// 1. entry
	for i, inv := range spec.Invariants {
		goal := envFor(st).evalBool(inv.E)
		f.curGroup = clauseGroup(inv.Props)
		f.oblige(st, "loopinv", fmt.Sprintf("%s#loop%d.inv:%d.entry", f.key, sh.ord, i+1), sh.pos, goal, inv.Text)
		f.curGroup = ""
	}
	// 2. modset by dry run (fixpoint)
	mod := f.loopModset(sh, st)
	// 3. arbitrary iteration
	h := st
	for _, c := range mod {
		f.havocLoopCell(h, c)
	}
	{
		it := in.D.fresh(fmt.Sprintf("iter%d", sh.ord), SInt)
		h.store[iterC] = Sc{it}
		h.assume(Le(IntLit(0), it))
	}
	for _, inv := range spec.Invariants {
		h.assume(inGroup(envFor(h).evalBool(inv.E), clauseGroup(inv.Props)))
	}
	var outs []Outcome
	head := h.clone()
	conds := []condState{{h, TTrue}}
	if sh.cond != nil {
		conds = sh.cond(h)
	}
	for _, cs := range conds {
		yes, no := f.fork(cs.St, cs.T, fmt.Sprintf("loop%d", sh.ord))
		if no != nil {
			if sh.exitAssume != nil {
				sh.exitAssume(no)
			}
			outs = append(outs, Outcome{St: no, Kind: ONormal})
		}
		if yes == nil {
			continue
		}
		if sh.prefix != nil {
			sh.prefix(yes)
		}
		nHead := len(yes.hyps) // loop-head facts + loop condition + range bindings
		for _, o := range f.execBlock(sh.body.List, yes) {
			switch {
			case o.Kind == ONormal, o.Kind == OContinue && f.matchLabel(o, sh):
				nBody := len(o.St.hyps)
				for i, a := range spec.Asserts {
					env := f.specEnvAt(o.St, sh.body.End()-1)
					env.pre = head
					goal := env.evalBool(a.E)
					f.curGroup = clauseGroup(a.Props)
					f.oblige(o.St, "assert", fmt.Sprintf("%s#loop%d.assert:%d", f.key, sh.ord, i+1), sh.pos, goal, a.Text)
					f.curGroup = ""
					o.St.assume(inGroup(goal, clauseGroup(a.Props)))
				}
				for _, ps := range sh.post(o.St) {
					if cur, ok := ps.store[iterC].(Sc); ok {
						ps.store[iterC] = Sc{Add(cur.T, IntLit(1))}
					}
					for i, inv := range spec.Invariants {
						goal := envFor(ps).evalBool(inv.E)
						f.curGroup = clauseGroup(inv.Props)
						f.oblige(ps, "loopinv", fmt.Sprintf("%s#loop%d.inv:%d.preserve", f.key, sh.ord, i+1), sh.pos, goal, inv.Text)
						f.curGroup = ""
						if spec.Summarize && len(spec.Asserts) > 0 && nBody >= nHead && !goal.IsTrue() {
							// the loop asserts summarise the body: preservation is proved from the
							// loop-head facts, the asserts and the post statement only (dropping the
							// body's own hypotheses is sound and keeps the obligation small)
							ob := in.obls[len(in.obls)-1]
							hy := append([]Term(nil), ps.hyps[:nHead]...)
							hy = append(hy, ps.hyps[nBody:]...)
							ob.Hyps = hy
						}
					}
				}
			case o.Kind == OBreak && f.matchLabel(o, sh):
				outs = append(outs, Outcome{St: o.St, Kind: ONormal})
			default:
				outs = append(outs, o)
			}
		}
	}
	return outs
}

// loopModset discovers the cells written by the loop by dry-running the body
// from increasingly havoc'd states until no new cell is found.
func (f *Frame) loopModset(sh *loopShape, st *State) []*Cell {
	in := f.in
	limit := in.cellN
	modset := map[*Cell]bool{}
	var order []*Cell
	saveObls := len(in.obls)
	savePaths := in.pathCnt
	saveLoopN, saveCallN, saveRetN := f.loopN, f.callN, f.retN
	saveSafety := map[string]int{}
	for k, v := range in.safetyN {
		saveSafety[k] = v
	}
	saveDefers := len(f.defers)
	for round := 0; round < 6; round++ {
		dry := st.clone()
		for _, c := range order {
			f.havocLoopCell(dry, c)
		}
		base := map[*Cell]Val{}
		for c, v := range dry.store {
			base[c] = v
		}
		var finals []*State
		conds := []condState{{dry, TTrue}}
		if sh.cond != nil {
			conds = sh.cond(dry)
		}
		for _, cs := range conds {
			if cs.T.IsFalse() {
				continue
			}
			b := cs.St
			if !cs.T.IsTrue() {
				b = cs.St.clone()
				b.assume(cs.T)
			}
			if sh.prefix != nil {
				sh.prefix(b)
			}
			for _, o := range f.execBlock(sh.body.List, b) {
				if o.Kind == ONormal || o.Kind == OContinue {
					finals = append(finals, sh.post(o.St)...)
				} else {
					finals = append(finals, o.St)
				}
			}
		}
		grew := false
		for _, fs := range finals {
			for c, v := range fs.store {
				if c.ID > limit {
					continue
				}
				if modset[c] {
					// already known as modified: only refine the set of modified struct fields
					if ov, had := base[c]; had {
						if osv, ok1 := ov.(StructV); ok1 {
							if nsv, ok2 := v.(StructV); ok2 && len(osv.F) == len(nsv.F) && f.modFields[c] != nil {
								for i := range osv.F {
									if !sameVal(osv.F[i], nsv.F[i]) && !f.modFields[c][i] {
										f.modFields[c][i] = true
										grew = true
									}
								}
							}
						}
					}
					continue
				}
				ov, had := base[c]
				if !had {
					ov, had = in.initial[c]
				}
				if !had || !sameVal(ov, v) {
					modset[c] = true
					order = append(order, c)
					grew = true
				}
				// field-sensitive havoc for struct cells: remember which fields differ
				if osv, ok1 := ov.(StructV); ok1 && had {
					if nsv, ok2 := v.(StructV); ok2 && len(osv.F) == len(nsv.F) {
						if f.modFields == nil {
							f.modFields = map[*Cell]map[int]bool{}
						}
						if f.modFields[c] == nil {
							f.modFields[c] = map[int]bool{}
						}
						for i := range osv.F {
							if !sameVal(osv.F[i], nsv.F[i]) && !f.modFields[c][i] {
								f.modFields[c][i] = true
								grew = true
							}
						}
					}
				}
			}
		}
		// restore bookkeeping
		in.obls = in.obls[:saveObls]
		in.pathCnt = savePaths
		f.loopN, f.callN, f.retN = saveLoopN, saveCallN, saveRetN
		for k := range in.safetyN {
			in.safetyN[k] = saveSafety[k]
		}
		f.defers = f.defers[:saveDefers]
		if !grew {
			break
		}
	}
	for _, g := range sh.ghostCells {
		if !modset[g] {
			order = append(order, g)
		}
	}
	return order
}

// specEnvAt builds the spec environment for invariants / assertions inside the body of f.
func (f *Frame) specEnvAt(st *State, pos token.Pos) *SpecEnv {
	env := &SpecEnv{in: f.in, f: f, st: st, old: f.entry, vars: map[string]Val{}, pos: pos, pkgPath: f.pkg.PkgPath, useCur: true, lets: map[string]SExpr{}}
	if f.contract != nil {
		for _, l := range f.contract.Lets {
			env.lets[l.Name] = l.E
		}
	}
	for ord, c := range f.loopIdx {
		env.vars[fmt.Sprintf("idx%d", ord)] = f.in.load(st, c, f)
	}
	for k, c := range f.ghostCells {
		if v, ok := st.store[c]; ok {
			env.vars[k] = v
		}
	}
	return env
}

// havocLoopCell havocs a cell of a loop's modset; for a struct cell whose modified fields are known
// only those fields get fresh values (the others are provably unchanged by the body).
func (f *Frame) havocLoopCell(st *State, c *Cell) {
	in := f.in
	if fields := f.modFields[c]; len(fields) > 0 {
		if sv, ok := in.load(st, c, f).(StructV); ok {
			nf := append([]Val(nil), sv.F...)
			for i := range nf {
				if fields[i] {
					nf[i] = in.freshVal(sv.Typ.Field(i).Name(), sv.Typ.Field(i).Type(), f)
				}
			}
			st.store[c] = StructV{Typ: sv.Typ, F: nf}
			return
		}
	}
	in.havocCell(st, c, f)
}
