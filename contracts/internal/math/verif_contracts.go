//go:build verif

// Contracts for package internal/math (comment-only; read by /verif/cmd/govc).
package math

// The operator accumulates exactly (in unbounded arithmetic) until the first overflow; from then on the
// error is sticky and Value reports it.
//@ func NewUint64Operator props C12
//@   ensures !isnil(result) && result.v == v && result.err == nil

//@ func (*Uint64Operator).Add props C12
//@   modifies *o
//@   ensures old(o.err) != nil ==> o.err == old(o.err) && o.v == old(o.v)
//@   ensures old(o.err) == nil && old(o.v) + n <= MAX ==> o.err == nil && o.v == old(o.v) + n
//@   ensures old(o.err) == nil && old(o.v) + n > MAX ==> o.err != nil

//@ func (*Uint64Operator).Mul props C12
//@   modifies *o
//@   ensures old(o.err) != nil ==> o.err == old(o.err) && o.v == old(o.v)
//@   ensures old(o.err) == nil && old(o.v) * n <= MAX ==> o.err == nil && o.v == old(o.v) * n
//@   ensures old(o.err) == nil && old(o.v) * n > MAX ==> o.err != nil

//@ func (*Uint64Operator).MulAdd props C12
//@   modifies *o
//@   ensures old(o.err) != nil ==> o.err == old(o.err) && o.v == old(o.v)
//@   ensures old(o.err) == nil && old(o.v) + a * b <= MAX ==> o.err == nil && o.v == old(o.v) + a * b
//@   ensures old(o.err) == nil && old(o.v) + a * b > MAX ==> o.err != nil

//@ func (*Uint64Operator).Value props C12
//@   ensures result0 == o.v && result1 == o.err
