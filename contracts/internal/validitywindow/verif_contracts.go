//go:build verif

// Contracts for package validitywindow (comment-only; read by /verif/cmd/govc).
package validitywindow

// A container timestamp is acceptable at an execution timestamp iff it is a whole
// multiple of the divisor, not earlier than the execution timestamp and at most
// execution timestamp + validity window (mathematical right-hand side).
//@ func VerifyTimestamp props C10
//@   requires divisor > 0 && validityWindow >= 0 && executionTimestamp + validityWindow <= MaxInt64
//@   ensures (err == nil) == (containerTimestamp % divisor == 0 && containerTimestamp >= executionTimestamp && containerTimestamp <= executionTimestamp + validityWindow)
//@   ensures containerTimestamp % divisor != 0 ==> is(err, ErrMisalignedTime)
//@   ensures containerTimestamp % divisor == 0 && containerTimestamp < executionTimestamp ==> is(err, ErrTimestampExpired)
//@   ensures containerTimestamp % divisor == 0 && containerTimestamp > executionTimestamp + validityWindow ==> is(err, ErrFutureTimestamp)
