//go:build verif

// Contracts for package internal/fees (comment-only; read by /verif/cmd/govc).
package fees

//@ func (*Manager).Fee
//@   trusted
//@   noframe
