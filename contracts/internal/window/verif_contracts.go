//go:build verif

// Contracts for package internal/window (comment-only; read by /verif/cmd/govc).
package window

// slot i of a window: the big-endian uint64 at bytes [8i, 8i+8)
//@ spec opaque func slot(w Window, i int) int = be64(w, 8*i)
//@ spec func sum10(w Window) int = slot(w,0)+slot(w,1)+slot(w,2)+slot(w,3)+slot(w,4)+slot(w,5)+slot(w,6)+slot(w,7)+slot(w,8)+slot(w,9)

// Roll shifts the slots left by `roll` places, filling with zero.
//@ func Roll props C13
//@   reveal slot
//@   ensures forall i int :: 0 <= i && i < 10 ==> slot(result, i) == ite(i + roll < 10, slot(w, i + roll), 0)

// Sum is the saturating sum of the ten slots.
//@ func Sum props C13
//@   reveal slot
//@   ensures result == min(MAX, sum10(w))

// Update adds unitsConsumed to the slot starting at byte `start`, saturating; other bytes unchanged.
//@ func Update props C13
//@   reveal slot
//@   requires 0 <= start && start + 8 <= 80 && start % 8 == 0
//@   modifies *w
//@   ensures slot(*w, start / 8) == min(MAX, old(slot(*w, start / 8)) + unitsConsumed)
//@   ensures forall i int :: 0 <= i && i < 10 && i != start / 8 ==> slot(*w, i) == old(slot(*w, i))

//@ func Last props C13
//@   reveal slot
//@   ensures result == slot(*w, 9)
