//go:build verif

// Contracts for package fees (comment-only; read by /verif/cmd/govc).
package fees

//@ spec func sumFits(a Dimensions, b Dimensions, l Dimensions) bool = a[0]+b[0] <= l[0] && a[1]+b[1] <= l[1] && a[2]+b[2] <= l[2] && a[3]+b[3] <= l[3] && a[4]+b[4] <= l[4]
//@ spec func sumFitsMax(a Dimensions, b Dimensions) bool = a[0]+b[0] <= MAX && a[1]+b[1] <= MAX && a[2]+b[2] <= MAX && a[3]+b[3] <= MAX && a[4]+b[4] <= MAX

//@ func Add props C33 C12
//@   ensures (err == nil) == sumFitsMax(a, b)
//@   ensures err == nil ==> result0[0] == a[0] + b[0] && result0[1] == a[1] + b[1] && result0[2] == a[2] + b[2] && result0[3] == a[3] + b[3] && result0[4] == a[4] + b[4]

//@ func Dimensions.CanAdd props C33 C12
//@   ensures result == sumFits(d, a, l)

//@ func MulSum props C12 C14
//@   ensures (err == nil) == (a[0]*b[0] + a[1]*b[1] + a[2]*b[2] + a[3]*b[3] + a[4]*b[4] <= MAX)
//@   ensures err == nil ==> result0 == a[0]*b[0] + a[1]*b[1] + a[2]*b[2] + a[3]*b[3] + a[4]*b[4]

// ---------------------------------------------------------------------------------
// LargestSet (C33)
// ---------------------------------------------------------------------------------
// ksum: per-dimension sum of the kept entries among the first i positions of the
// sorted index array (entries equal to the sentinel n are skipped).
//@ spec rec func ksum(out intarr, dims intarr2, n int, d int, i int) int = ite(i <= 0, 0, ksum(out, dims, n, d, i - 1) + ite(out[i-1] == n, 0, dims[out[i-1]][d]))
// psum: per-dimension sum of the first m entries of an index array.
//@ spec rec func psum(res intarr, dims intarr2, d int, m int) int = ite(m <= 0, 0, psum(res, dims, d, m - 1) + dims[res[m-1]][d])

// frames: the sums over a prefix only depend on that prefix
//@ lemma ksum_frame props C33 reveal ksum induct i: forall i int, o1 intarr, o2 intarr, dims intarr2, n int, d int :: (forall x int :: 0 <= x && x < i ==> o1[x] == o2[x]) ==> ksum(o1, dims, n, d, i) == ksum(o2, dims, n, d, i)
//@ lemma psum_frame props C33 reveal psum induct m: forall m int, o1 intarr, o2 intarr, dims intarr2, d int :: (forall x int :: 0 <= x && x < m ==> o1[x] == o2[x]) ==> psum(o1, dims, d, m) == psum(o2, dims, d, m)

//@ spec func fitsAt(out intarr, dims intarr2, n int, x int, v Dimensions, l Dimensions) bool = ksum(out,dims,n,0,x)+v[0] <= l[0] && ksum(out,dims,n,1,x)+v[1] <= l[1] && ksum(out,dims,n,2,x)+v[2] <= l[2] && ksum(out,dims,n,3,x)+v[3] <= l[3] && ksum(out,dims,n,4,x)+v[4] <= l[4]

//@ func LargestSet props C33
//@   uses ksum_frame psum_frame
//@   reveal-asserts ksum psum
//@   dead return 1
//@   noframe
//@   loop 1 invariant 0 <= idx1 && idx1 <= len(dimensions) && len(outIndices) == len(dimensions) && len(weights) == len(dimensions)
//@   loop 1 invariant forall x int :: 0 <= x && x < idx1 ==> outIndices[x] == x
//@   loop 2 unroll 5
//@   loop 3 invariant 0 <= i && i <= len(dimensions) && len(outIndices) == len(dimensions)
//@   loop 3 invariant forall x int :: 0 <= x && x < len(dimensions) ==> 0 <= outIndices[x] && outIndices[x] <= len(dimensions)
//@   loop 3 invariant forall x int :: i <= x && x < len(dimensions) ==> outIndices[x] < len(dimensions) && outIndices[x] == entry(3, outIndices[x])
//@   loop 3 invariant forall x int, y int :: 0 <= x && x < y && y < len(dimensions) && outIndices[x] != len(dimensions) && outIndices[y] != len(dimensions) ==> outIndices[x] != outIndices[y]
//@   loop 3 invariant forall d int :: 0 <= d && d < 5 ==> accumulator[d] == ksum(outIndices, dimensions, len(dimensions), d, i) && accumulator[d] <= limit[d]
//@   loop 3 invariant forall x int :: 0 <= x && x < i && outIndices[x] == len(dimensions) ==> !fitsAt(outIndices, dimensions, len(dimensions), x, dimensions[entry(3, outIndices[x])], limit)
//@   loop 3 assert forall d int :: 0 <= d && d < 5 ==> ksum(outIndices, dimensions, len(dimensions), d, i + 1) == ksum(outIndices, dimensions, len(dimensions), d, i) + ite(outIndices[i] == len(dimensions), 0, dimensions[outIndices[i]][d])
//@   loop 3 assert forall d int, x int :: 0 <= d && d < 5 && 0 <= x && x <= i ==> ksum(outIndices, dimensions, len(dimensions), d, x) == pre(ksum(outIndices, dimensions, len(dimensions), d, x))
//@   loop 4 assert forall d int :: 0 <= d && d < 5 ==> ksum(entry(4, outIndices), dimensions, len(dimensions), d, idx4 + 1) == ksum(entry(4, outIndices), dimensions, len(dimensions), d, idx4) + ite(index == len(dimensions), 0, dimensions[index][d])
//@   loop 4 assert forall d int :: 0 <= d && d < 5 ==> psum(outIndices, dimensions, d, pre(kept)) == pre(psum(outIndices, dimensions, d, kept))
//@   loop 4 assert forall d int :: 0 <= d && d < 5 ==> psum(outIndices, dimensions, d, kept) == pre(psum(outIndices, dimensions, d, kept)) + ite(index == len(dimensions), 0, dimensions[index][d])
//@   loop 4 invariant 0 <= kept && kept <= idx4 && idx4 <= len(dimensions) && len(outIndices) == len(dimensions)
//@   loop 4 invariant forall x int :: idx4 <= x && x < len(dimensions) ==> outIndices[x] == entry(4, outIndices[x])
//@   loop 4 invariant forall x int :: 0 <= x && x < kept ==> outIndices[x] < len(dimensions)
//@   loop 4 invariant forall x int, y int :: 0 <= x && x < y && y < kept ==> outIndices[x] != outIndices[y]
//@   loop 4 invariant forall x int, y int :: 0 <= x && x < kept && idx4 <= y && y < len(dimensions) && entry(4, outIndices[y]) != len(dimensions) ==> outIndices[x] != entry(4, outIndices[y])
//@   loop 4 invariant forall d int :: 0 <= d && d < 5 ==> psum(outIndices, dimensions, d, kept) == ksum(entry(4, outIndices), dimensions, len(dimensions), d, idx4)
//@   ensures forall x int :: 0 <= x && x < len(result0) ==> result0[x] < len(dimensions)
//@   ensures forall x int, y int :: 0 <= x && x < y && y < len(result0) ==> result0[x] != result0[y]
//@   ensures forall d int :: 0 <= d && d < 5 ==> result1[d] == psum(result0, dimensions, d, len(result0))
//@   ensures forall d int :: 0 <= d && d < 5 ==> result1[d] <= limit[d]
