//go:build verif

// Contracts for package chain (comment-only; read by /verif/cmd/govc).
package chain

// ---- interface contracts: pure getters are uninterpreted functions of (receiver, args) ----
//@ func Rules.GetChainID
//@   pure
//@ func Rules.GetValidityWindow
//@   pure
//@ func Rules.GetMaxActionsPerTx
//@   pure
//@ func Action.ValidRange
//@   pure
//@ func Auth.ValidRange
//@   pure
//@ func Auth.Sponsor
//@   pure
//@ func MetadataManager.HeightPrefix
//@   pure
//@ func MetadataManager.FeePrefix
//@   pure
//@ func MetadataManager.TimestampPrefix
//@   pure
//@ func BalanceHandler.CanDeduct
//@   noframe

// activation: -1 (any negative) means "no bound"
//@ spec func active(s int, e int, t int) bool = (s < 0 || t >= s) && (e < 0 || t <= e)

//@ func (*Base).Execute props C10
//@   requires Rules.GetValidityWindow(r) >= 0 && timestamp + Rules.GetValidityWindow(r) <= MaxInt64
//@   ensures (err == nil) == (b.ChainID == Rules.GetChainID(r) && b.Timestamp % 1000 == 0 && b.Timestamp >= timestamp && b.Timestamp <= timestamp + Rules.GetValidityWindow(r))
//@   ensures b.ChainID != Rules.GetChainID(r) ==> is(err, ErrInvalidChainID)

//@ func (*Transaction).Units
//@   trusted
//@   noframe

//@ func (*Transaction).PreExecute props C10
//@   requires Rules.GetValidityWindow(r) >= 0 && timestamp + Rules.GetValidityWindow(r) <= MaxInt64
//@   requires internalfees.wellFormed(feeManager)
//@   loop 1 invariant 0 <= idx1 && idx1 <= len(t.Actions)
//@   loop 1 invariant forall j int :: 0 <= j && j < idx1 ==> active(fst(Action.ValidRange(t.Actions[j], r)), snd(Action.ValidRange(t.Actions[j], r)), timestamp)
//@   ensures err == nil ==> t.Base.ChainID == Rules.GetChainID(r)
//@   ensures err == nil ==> t.Base.Timestamp % 1000 == 0 && t.Base.Timestamp >= timestamp && t.Base.Timestamp <= timestamp + Rules.GetValidityWindow(r)
//@   ensures err == nil ==> len(t.Actions) <= Rules.GetMaxActionsPerTx(r)
//@   ensures err == nil ==> forall j int :: 0 <= j && j < len(t.Actions) ==> active(fst(Action.ValidRange(t.Actions[j], r)), snd(Action.ValidRange(t.Actions[j], r)), timestamp)
//@   ensures err == nil ==> active(fst(Auth.ValidRange(t.Auth, r)), snd(Auth.ValidRange(t.Auth, r)), timestamp)
