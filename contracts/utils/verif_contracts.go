//go:build verif

// Contracts for package utils (comment-only; read by /verif/cmd/govc).
package utils

// ToID hashes its argument (sha256): a deterministic function of the bytes
//@ func ToID
//@   pure
