//go:build verif

// Contracts for package state/metadata (comment-only; read by /verif/cmd/govc).
package metadata

// P(i): the i-th prefix of the list [height, fee, timestamp, vmPrefixes...]
//@ spec opaque func P(m chain.MetadataManager, vm [][]byte, i int) bytes = ite(i == 0, str(chain.MetadataManager.HeightPrefix(m)), ite(i == 1, str(chain.MetadataManager.FeePrefix(m)), ite(i == 2, str(chain.MetadataManager.TimestampPrefix(m)), str(vm[i-3]))))
//@ spec func conflict(a bytes, b bytes) bool = hasprefix(a, b) || hasprefix(b, a)

//@ func HasConflictingPrefixes props C39
//@   reveal P
//@   loop 1 invariant 0 <= idx1 && idx1 <= len(prefixes) && len(prefixes) == 3 + len(vmPrefixes)
//@   loop 1 invariant forall k int :: 0 <= k && k < len(prefixes) ==> str(prefixes[k]) == P(m, vmPrefixes, k)
//@   loop 1 invariant len(verifiedPrefixes) == idx1
//@   loop 1 invariant forall k int :: 0 <= k && k < idx1 ==> str(verifiedPrefixes[k]) == P(m, vmPrefixes, k)
//@   loop 1 invariant forall a int, b int :: 0 <= a && a < b && b < idx1 ==> !conflict(P(m, vmPrefixes, a), P(m, vmPrefixes, b))
//@   loop 2 invariant 0 <= idx2 && idx2 <= len(verifiedPrefixes) && len(verifiedPrefixes) == idx1 && str(p) == P(m, vmPrefixes, idx1)
//@   loop 2 invariant forall k int :: 0 <= k && k < idx1 ==> str(verifiedPrefixes[k]) == P(m, vmPrefixes, k)
//@   loop 2 invariant forall a int :: 0 <= a && a < idx2 ==> !conflict(P(m, vmPrefixes, a), P(m, vmPrefixes, idx1))
//@   ensures result == (exists a int, b int :: 0 <= a && a < b && b < 3 + len(vmPrefixes) && conflict(P(m, vmPrefixes, a), P(m, vmPrefixes, b)))
