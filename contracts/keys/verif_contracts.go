//go:build verif

// Contracts for package keys (comment-only; read by /verif/cmd/govc, never compiled
// into the repository: the build tag `verif` is not set by any build of hypersdk).
package keys

//@ spec func chunksOf(n int) int = ite(n == 0, 0, n/64 + 1)

//@ func Valid props C40
//@   ensures result == (len(key) >= 2)

//@ func MaxChunks props C40 C12
//@   ensures len(key) < 2 ==> result0 == 0 && !result1
//@   ensures len(key) >= 2 ==> result1 && result0 == be16(key, len(key)-2)

//@ func numChunks props C40
//@   requires valueLen >= 0
//@   ensures result1 == (chunksOf(valueLen) <= 65535)
//@   ensures result1 ==> result0 == chunksOf(valueLen)
//@   ensures !result1 ==> result0 == 0

//@ func NumChunks props C40
//@   ensures result1 == (chunksOf(len(value)) <= 65535)
//@   ensures result1 ==> result0 == chunksOf(len(value))
//@   ensures !result1 ==> result0 == 0

//@ func Verify props C40
//@   ensures result ==> len(key) >= 2 && be16(key, len(key)-2) <= maxValueChunks
//@   ensures len(key) < 4294967296 ==> result == (len(key) <= maxKeySize && len(key) >= 2 && be16(key, len(key)-2) <= maxValueChunks)

//@ func VerifyValue props C40
//@   ensures result == (len(key) >= 2 && chunksOf(len(value)) <= be16(key, len(key)-2))

//@ func Encode props C40
//@   requires maxSize >= 0
//@   ensures result1 == (chunksOf(maxSize) <= 65535)
//@   ensures result1 ==> len(result0) == len(key) + 2
//@   ensures result1 ==> be16(result0, len(key)) == chunksOf(maxSize)
//@   ensures result1 ==> forall j int :: 0 <= j && j < len(key) ==> result0[j] == old(key[j])

//@ func EncodeChunks props C40
//@   ensures len(result) == len(key) + 2
//@   ensures be16(result, len(key)) == maxChunks
//@   ensures forall j int :: 0 <= j && j < len(key) ==> result[j] == old(key[j])

//@ func DecodeChunks props C40
//@   ensures len(key) < 2 ==> result0 == 0 && !result1
//@   ensures len(key) >= 2 ==> result1 && result0 == be16(key, len(key)-2)

// A key encoded for maxSize admits every value of length <= maxSize:
// with k = Encode(p, maxSize), VerifyValue(k, v) holds because
// chunksOf is monotone and the suffix of k is chunksOf(maxSize).
//@ lemma encode_admits props C40: forall n int, m int :: 0 <= n && n <= m && chunksOf(m) <= 65535 ==> chunksOf(n) <= chunksOf(m)
