#!/bin/bash
# Must-fail corpus: every mutant (a sed script or a patch against /repo) must make the
# check of its property exit 1 with a VIOLATION line; the unchanged tree must exit 0.
# usage: selftest/run.sh [ID...]
VROOT=${VROOT:-/verif}   # a snapshot copy of /verif may be given (with REPO) for long background runs
cd $VROOT
REPO=${REPO:-/repo}   # a scratch worktree may be given so that /repo stays untouched while this runs
# evidence of mutated trees goes to a scratch directory, never to /verif/evidence
export VERIF_EVIDENCE_DIR=$(mktemp -d); trap 'rm -rf "$VERIF_EVIDENCE_DIR"' EXIT
ids="$@"
[ -z "$ids" ] && ids=$(ls selftest/mutants)
fail=0
for id in $ids; do
  for m in $VROOT/selftest/mutants/$id/*.diff; do
    [ -f "$m" ] || continue
    if ! git -C $REPO apply --check "$m" 2>/dev/null; then echo "SKIP(no-apply) $m"; fail=1; continue; fi
    git -C $REPO apply "$m"
    out=$(./bin/govc check $id --repo $REPO --verif $VROOT 2>&1); rc=$?
    git -C $REPO apply -R "$m"
    if [ $rc -eq 1 ] && echo "$out" | grep -q "^VIOLATION property=$id"; then
      echo "KILLED  $m  ($(echo "$out" | grep -c '^VIOLATION') violations: $(echo "$out" | grep '^VIOLATION' | head -1 | sed 's/.*obligation=//'))"
    else
      echo "MISSED  $m (exit $rc)"; echo "$out" | tail -3; fail=1
    fi
  done
done
exit $fail
