module govc

go 1.23.7

require golang.org/x/tools v0.29.0
