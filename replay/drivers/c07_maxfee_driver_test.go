package chain_test

// Replay driver for (*Transaction).Execute#post (C07): "an executed transaction is charged at most
// Base.MaxFee".  The failed obligation has no constraint linking the charged fee to MaxFee at all, so
// any transaction whose computed fee exceeds its MaxFee is a witness.  The driver builds such a
// transaction (MaxFee = 1, every unit price = 1, so fee >= size+compute > 1), funds the sponsor,
// runs the REAL PreExecute (admission/builder/verifier check) and the REAL Execute, and compares
// Result.Fee with MaxFee.

import (
	"context"
	"encoding/json"
	"fmt"
	"testing"

	"github.com/ava-labs/hypersdk/chain"
	"github.com/ava-labs/hypersdk/chain/chaintest"
	"github.com/ava-labs/hypersdk/genesis"
	"github.com/ava-labs/hypersdk/internal/fees"
	"github.com/ava-labs/hypersdk/state"
	"github.com/ava-labs/hypersdk/state/balance"
	"github.com/ava-labs/hypersdk/state/tstate"

	externalfees "github.com/ava-labs/hypersdk/fees"
)

func TestGovcDriverC07MaxFee(t *testing.T) {
	ctx := context.Background()
	result := map[string]interface{}{"violated": false}
	defer func() {
		out, _ := json.Marshal(result)
		fmt.Printf("GOVC-DRIVER-RESULT: %s\n", out)
	}()
	rules := genesis.NewDefaultRules()
	bh := balance.NewPrefixBalanceHandler([]byte{0})
	fm := fees.NewManager([]byte{})
	for i := 0; i < externalfees.FeeDimensions; i++ {
		fm.SetUnitPrice(externalfees.Dimension(i), 1)
	}
	auth := chaintest.NewDummyTestAuth()
	txData := chain.NewTxData(chain.Base{Timestamp: 0, MaxFee: 1}, []chain.Action{})
	tx, err := chain.NewTransaction(txData.Base, txData.Actions, auth)
	if err != nil {
		result["error"] = err.Error()
		return
	}
	store := chaintest.NewInMemoryStore()
	if err := bh.AddBalance(ctx, auth.Sponsor(), store, 1_000_000); err != nil {
		result["error"] = err.Error()
		return
	}
	pre := tx.PreExecute(ctx, fm, bh, rules, store, 0)
	keys, err := tx.StateKeys(bh)
	if err != nil {
		result["error"] = err.Error()
		return
	}
	ts := tstate.New(0)
	view := ts.NewView(keys, state.ImmutableStorage(store.Storage), len(keys))
	res, err := tx.Execute(ctx, fm, bh, rules, view, 0)
	if err != nil {
		result["error"] = fmt.Sprintf("PreExecute=%v Execute err=%v", pre, err)
		return
	}
	result["trace"] = fmt.Sprintf("tx with MaxFee=%d, unit prices 1: PreExecute -> %v; Execute -> success=%v Fee=%d", tx.Base.MaxFee, pre, res.Success, res.Fee)
	if pre == nil && res.Fee > tx.Base.MaxFee {
		result["violated"] = true
	}
}
