package indexer

// Replay driver for (*Indexer).insertBlockIntoCache#post:2 (C31): "after inserting an accepted block
// every cached height lies in (last - window, last]".  The failing case of the obligation is an
// insert whose height is more than one above the previous one.  The driver reaches it on a REAL
// indexer (window 3; heights 1, 2, then 20, 21 as after state sync) and asks for height 2, which is
// 19 blocks older than the tip; violated iff it is still served (and whether a restart changes it).

import (
	"context"
	"encoding/json"
	"fmt"
	"testing"

	"github.com/ava-labs/avalanchego/ids"
	"github.com/stretchr/testify/require"

	"github.com/ava-labs/hypersdk/chain/chaintest"
)

func TestGovcDriverC31Window(t *testing.T) {
	r := require.New(t)
	ctx := context.Background()
	result := map[string]interface{}{"violated": false}
	defer func() {
		out, _ := json.Marshal(result)
		fmt.Printf("GOVC-DRIVER-RESULT: %s\n", out)
	}()
	dir := t.TempDir()
	idx, err := NewIndexer(dir, chaintest.NewTestParser(), 3)
	r.NoError(err)
	blks := chaintest.GenerateEmptyExecutedBlocks(r, ids.GenerateTestID(), ids.GenerateTestID(), 0, 0, 1, 30, 1)
	for _, h := range []int{1, 2, 20, 21} {
		r.NoError(idx.Notify(ctx, blks[h-1]))
	}
	_, err2 := idx.GetBlockByHeight(2)
	found, _, _, _, _ := idx.GetTransaction(blks[1].Block.Txs[0].GetID())
	r.NoError(idx.Close())
	idx2, err := NewIndexer(dir, chaintest.NewTestParser(), 3)
	r.NoError(err)
	_, err3 := idx2.GetBlockByHeight(2)
	r.NoError(idx2.Close())
	result["trace"] = fmt.Sprintf("window 3; Notify heights 1, 2, 20, 21; GetBlockByHeight(2) -> err=%v; its transaction still reported: %v; after a restart GetBlockByHeight(2) -> err=%v", err2, found, err3)
	if err2 == nil || found {
		result["violated"] = true
	}
}
