package chain

// Replay driver for (Bonder).Bond#post:3 (C38): reaches the abstract pre-state of the failed
// obligation (the transaction already has a fee record f0 > 0 in the bonder database) through the
// public API -- Bond(tx) once -- then performs Bond(tx) again on the REAL code and checks the
// postcondition concretely: the sponsor's pending bond must move by exactly the change of the fee
// recorded for the transaction.  It also reports the end-to-end effect: after every bonded
// transaction has been released the pending bond must be back at zero.

import (
	"context"
	"encoding/binary"
	"encoding/json"
	"fmt"
	"testing"

	"github.com/ava-labs/avalanchego/database/memdb"
	"github.com/ava-labs/avalanchego/ids"

	"github.com/ava-labs/hypersdk/chain"
	"github.com/ava-labs/hypersdk/codec"
	"github.com/ava-labs/hypersdk/state"
	"github.com/ava-labs/hypersdk/state/tstate"
)

func TestGovcDriverC38Bond(t *testing.T) {
	ctx := context.Background()
	result := map[string]interface{}{"violated": false}
	defer func() {
		out, _ := json.Marshal(result)
		fmt.Printf("GOVC-DRIVER-RESULT: %s\n", out)
	}()
	db := memdb.New()
	b := NewBonder(db)
	ts := tstate.New(0)
	view := ts.NewView(state.CompletePermissions, newDB(t), 0)
	if err := b.SetMaxBalance(ctx, view, codec.EmptyAddress, 1_000_000); err != nil {
		t.Fatal(err)
	}
	txData := chain.NewTxData(chain.Base{Timestamp: 123, ChainID: ids.Empty, MaxFee: 456}, nil)
	tx, err := txData.Sign(&NoAuthFactory{})
	if err != nil {
		t.Fatal(err)
	}
	rec := func(k []byte) int64 {
		raw, err := db.Get(k)
		if err != nil || len(raw) == 0 {
			return 0
		}
		return int64(binary.BigEndian.Uint64(raw))
	}
	addr := tx.GetSponsor()
	id := tx.GetID()
	if ok, err := b.Bond(ctx, view, tx, 1); err != nil || !ok {
		result["error"] = fmt.Sprintf("first Bond: ok=%v err=%v", ok, err)
		return
	}
	p0, f0 := rec(addr[:]), rec(id[:])
	ok, err := b.Bond(ctx, view, tx, 1)
	p1, f1 := rec(addr[:]), rec(id[:])
	trace := fmt.Sprintf("Bond(tx,1) -> pending=%d fee[tx]=%d; Bond(tx,1) again -> (%v,%v) pending=%d fee[tx]=%d", p0, f0, ok, err, p1, f1)
	if err == nil && ok && p1-p0 != f1-f0 {
		result["violated"] = true
	}
	_ = b.Unbond(tx)
	_ = b.Unbond(tx)
	trace += fmt.Sprintf("; Unbond(tx) twice -> pending=%d (expected 0)", rec(addr[:]))
	result["trace"] = trace
	result["pending_after_all_released"] = rec(addr[:])
}
