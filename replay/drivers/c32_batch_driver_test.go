package pubsub

// Replay driver for (*MessageBuffer).clearPending#call1.assert:1 (C32): "every emitted batch encodes to
// at most the configured maximum size".  Reaches the pre-state of the failed obligation (pending
// messages whose plain lengths sum to the limit) through the public API on a REAL MessageBuffer and
// measures the batches that come out of the queue.

import (
	"encoding/json"
	"fmt"
	"testing"
	"time"

	"github.com/ava-labs/avalanchego/utils/logging"
)

func TestGovcDriverC32Batch(t *testing.T) {
	result := map[string]interface{}{"violated": false}
	defer func() {
		out, _ := json.Marshal(result)
		fmt.Printf("GOVC-DRIVER-RESULT: %s\n", out)
	}()
	for _, c := range []struct {
		max  int
		msgs []int
	}{{10, []int{5, 5, 5}}, {10, []int{10, 1}}, {300, []int{150, 150, 1}}, {8, []int{1, 1, 1, 1, 1, 1, 1, 1, 1}}} {
		mb := NewMessageBuffer(&logging.NoLog{}, 16, c.max, time.Hour)
		accepted := 0
		for _, n := range c.msgs {
			if err := mb.Send(make([]byte, n)); err == nil {
				accepted++
			}
		}
		_ = mb.Close()
		for b := range mb.Queue {
			if len(b) > c.max {
				result["violated"] = true
				result["trace"] = fmt.Sprintf("maxSize=%d, messages of sizes %v sent (%d accepted): emitted batch of %d bytes", c.max, c.msgs, accepted, len(b))
				return
			}
		}
	}
	result["trace"] = "every emitted batch was within the limit"
}
