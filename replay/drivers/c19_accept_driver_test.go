package chainindex

// Replay driver for (*ChainIndex).UpdateLastAccepted#post:1 (C19): the failed obligation is
// "on a healthy database the call succeeds"; the failing path is the one where the height leaving
// the window has no height->id record.  The driver reaches that abstract pre-state on a real
// memdb (an index holding only genesis, as after state sync) for a few (window, height) pairs and
// performs the call on the REAL code; violated iff it returns an error.

import (
	"context"
	"encoding/json"
	"fmt"
	"testing"

	"github.com/ava-labs/avalanchego/database/memdb"
)

func TestGovcDriverC19Accept(t *testing.T) {
	ctx := context.Background()
	result := map[string]interface{}{"violated": false}
	defer func() {
		out, _ := json.Marshal(result)
		fmt.Printf("GOVC-DRIVER-RESULT: %s\n", out)
	}()
	for _, c := range []struct{ window, height uint64 }{{10, 100}, {1, 2}, {1, 5}, {3, 4}} {
		ci, err := newTestChainIndex(ctx, Config{AcceptedBlockWindow: c.window, BlockCompactionFrequency: 64}, memdb.New())
		if err != nil {
			result["error"] = err.Error()
			return
		}
		if err := ci.UpdateLastAccepted(ctx, &testBlock{height: 0}); err != nil {
			result["error"] = err.Error()
			return
		}
		err = ci.UpdateLastAccepted(ctx, &testBlock{height: c.height})
		if err != nil {
			result["violated"] = true
			result["trace"] = fmt.Sprintf("window %d; index holding only genesis; UpdateLastAccepted(height %d) on a healthy memdb -> %v", c.window, c.height, err)
			return
		}
	}
	result["trace"] = "all accepts after a height gap succeeded"
}
