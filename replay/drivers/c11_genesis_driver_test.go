// Replay driver for NewGenesisCommit#call31.assert:1 (C11): "the genesis header's timestamp equals the
// timestamp recorded in the genesis state" -- the link that makes block timestamps non-decreasing from
// genesis on.  The driver builds the REAL genesis commit and verifies, with the REAL Processor, a first
// child whose timestamp is far below the genesis header's; violated iff it verifies.
package chain_test

import (
	"context"
	"encoding/json"
	"fmt"
	"testing"

	"github.com/ava-labs/avalanchego/snow/engine/snowman/block"
	"github.com/ava-labs/avalanchego/trace"
	"github.com/ava-labs/avalanchego/utils/logging"
	"github.com/prometheus/client_golang/prometheus"
	"github.com/stretchr/testify/require"

	"github.com/ava-labs/hypersdk/chain"
	"github.com/ava-labs/hypersdk/chain/chaintest"
	"github.com/ava-labs/hypersdk/genesis"
	"github.com/ava-labs/hypersdk/internal/validitywindow/validitywindowtest"
	"github.com/ava-labs/hypersdk/internal/workers"
	"github.com/ava-labs/hypersdk/state/balance"
	"github.com/ava-labs/hypersdk/state/metadata"
)

func TestGovcDriverC11Genesis(t *testing.T) {
	r := require.New(t)
	result := map[string]interface{}{"violated": false}
	defer func() {
		out, _ := json.Marshal(result)
		fmt.Printf("GOVC-DRIVER-RESULT: %s\n", out)
	}()
	ctx := context.Background()
	rules := genesis.NewDefaultRules()
	rf := &genesis.ImmutableRuleFactory{Rules: rules}
	mm := metadata.NewDefaultManager()
	bh := balance.NewPrefixBalanceHandler([]byte{metadata.DefaultMinimumPrefix})
	base, err := createTestView(map[string][]byte{})
	r.NoError(err)
	gblk, gview, err := chain.NewGenesisCommit(ctx, base, genesis.NewDefaultGenesis(nil), mm, bh, rf, trace.Noop, &logging.NoLog{})
	r.NoError(err)
	root, err := gview.GetMerkleRoot(ctx)
	r.NoError(err)
	metrics, err := chain.NewMetrics(prometheus.NewRegistry())
	r.NoError(err)
	p := chain.NewProcessor(trace.Noop, &logging.NoLog{}, rf, workers.NewSerial(), chaintest.NewDummyTestAuthEngines(), mm, bh,
		&validitywindowtest.MockTimeValidityWindow[*chain.Transaction]{}, metrics, chain.NewDefaultConfig())
	child, err := chain.NewStatelessBlock(gblk.GetID(), rules.GetMinEmptyBlockGap(), 1, nil, root, &block.Context{})
	r.NoError(err)
	_, err = p.Execute(ctx, gview, chain.NewExecutionBlock(child), true)
	result["trace"] = fmt.Sprintf("NewGenesisCommit: genesis header timestamp %d, state timestamp 0; Processor.Execute of an empty height-1 child with timestamp %d (= MinEmptyBlockGap) -> err=%v", gblk.Tmstmp, child.Tmstmp, err)
	if err == nil && child.Tmstmp < gblk.Tmstmp {
		result["violated"] = true
	}
}
