package auth_test

// Replay driver for L:estimate_covers_size (C14): "the bandwidth estimate is at least the size of
// the signed transaction".  The lemma is over recursive sums, so the solvers give no model; the
// driver searches the small witnesses the failed lemma predicts (many actions, or fewer actions of
// >= 128 bytes, each costing 2-3 bytes of tag+length the estimate may omit) on the REAL code:
// chain.EstimateUnits vs the units of the transaction actually generated and signed (ed25519).

import (
	"encoding/json"
	"fmt"
	"testing"

	"github.com/ava-labs/hypersdk/auth"
	"github.com/ava-labs/hypersdk/chain"
	"github.com/ava-labs/hypersdk/chain/chaintest"
	"github.com/ava-labs/hypersdk/crypto/ed25519"
	"github.com/ava-labs/hypersdk/genesis"
	"github.com/ava-labs/hypersdk/state/balance"
)

func TestGovcDriverC14Estimate(t *testing.T) {
	result := map[string]interface{}{"violated": false}
	defer func() {
		out, _ := json.Marshal(result)
		fmt.Printf("GOVC-DRIVER-RESULT: %s\n", out)
	}()
	priv, _ := ed25519.GeneratePrivateKey()
	f := auth.NewED25519Factory(priv)
	rules := genesis.NewDefaultRules()
	bh := balance.NewPrefixBalanceHandler([]byte{0})
	tried := 0
	for _, pad := range []int{0, 100, 200} { // extra bytes per action (a read key), >= 128-byte actions need a 2-byte length
		for _, n := range []int{1, 8, 13, 16, 32, 64, 128, 255} {
			acts := make([]chain.Action, n)
			for i := range acts {
				a := chaintest.NewDummyTestAction()
				a.Nonce = uint64(i)
				if pad > 0 {
					a.ReadKeys = [][]byte{make([]byte, pad)}
				}
				acts[i] = a
			}
			est, err := chain.EstimateUnits(rules, acts, f)
			if err != nil {
				continue
			}
			tx, err := chain.GenerateTransactionManual(rules, 1_000_000, acts, f, 1)
			if err != nil {
				continue
			}
			units, err := tx.Units(bh, rules)
			if err != nil {
				continue
			}
			tried++
			if est[0] < units[0] {
				result["violated"] = true
				result["trace"] = fmt.Sprintf("%d actions of %d bytes each, ed25519 auth: EstimateUnits bandwidth=%d < size of the signed transaction=%d (default MaxActionsPerTx is %d)", n, len(acts[0].Bytes()), est[0], units[0], rules.GetMaxActionsPerTx())
				return
			}
		}
	}
	result["trace"] = fmt.Sprintf("estimate covered the actual size in all %d cases tried", tried)
}
