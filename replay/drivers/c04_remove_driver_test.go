package tstate

// Replay driver for (*TStateView).Remove#post:1 (C04): reaches the abstract pre-state of the
// failed obligation (key present in the parent state, created again in this view, i.e.
// k in allocates and pendingChangedKeys[k] = Some) through the public API by a breadth-first
// search over {Insert(k,v1), Insert(k,v2), Remove(k)} sequences of length <= 4 on one key with
// the base value present/absent, then performs Remove(k) on the REAL code and checks the
// postcondition "the key reads as absent" concretely.

import (
	"context"
	"encoding/json"
	"fmt"
	"testing"

	"github.com/ava-labs/hypersdk/state"
)

func TestGovcDriverC04Remove(t *testing.T) {
	ctx := context.TODO()
	key := []byte{'k', 0, 1}
	ks := string(key)
	vals := [][]byte{[]byte("v0"), []byte("v1"), []byte("v2")}
	type step struct {
		op string
		v  int
	}
	alphabet := []step{{"insert", 1}, {"insert", 2}, {"remove", 0}}
	result := map[string]interface{}{"violated": false, "sequences_tried": 0}
	tried := 0
	var rec func(prefix []step, depth int) bool
	run := func(base bool, seq []step) (string, bool) {
		ts := New(10)
		st := map[string][]byte{}
		if base {
			st[ks] = vals[0]
		}
		tsv := ts.NewView(state.Keys{ks: state.All}, state.ImmutableStorage(st), 1)
		trace := fmt.Sprintf("base=%v", base)
		for _, s := range seq {
			var err error
			if s.op == "insert" {
				err = tsv.Insert(ctx, key, vals[s.v])
				trace += fmt.Sprintf("; Insert(k,%s)", vals[s.v])
			} else {
				err = tsv.Remove(ctx, key)
				trace += "; Remove(k)"
			}
			if err != nil {
				return trace, false
			}
		}
		if err := tsv.Remove(ctx, key); err != nil {
			return trace, false
		}
		trace += "; Remove(k)"
		v, err := tsv.GetValue(ctx, key)
		if err == nil {
			return trace + fmt.Sprintf("; GetValue(k) = %q (expected: not found)", v), true
		}
		return trace, false
	}
	rec = func(prefix []step, depth int) bool {
		for _, base := range []bool{true, false} {
			tried++
			if tr, bad := run(base, prefix); bad {
				result["violated"] = true
				result["detail"] = tr
				return true
			}
		}
		if depth == 0 {
			return false
		}
		for _, a := range alphabet {
			if rec(append(append([]step{}, prefix...), a), depth-1) {
				return true
			}
		}
		return false
	}
	rec(nil, 3)
	result["sequences_tried"] = tried
	j, _ := json.Marshal(result)
	fmt.Println("GOVC-DRIVER-RESULT: " + string(j))
}
