// Replay driver for (*Node).Verify#post:4 (C37): "a verified block references no chunk whose expiry
// is before the block timestamp".  Reaches the interesting pre-state on a REAL node: a certificate is
// included and accepted, time passes beyond its expiry (so the validity window has evicted it), and a
// hand-made block re-includes it.  violated iff Verify accepts that block.
package dsmr

import (
	"context"
	"encoding/json"
	"fmt"
	"testing"

	"github.com/ava-labs/avalanchego/ids"
	"github.com/ava-labs/avalanchego/utils/wrappers"

	"github.com/ava-labs/hypersdk/codec"
	"github.com/ava-labs/hypersdk/consts"
	"github.com/ava-labs/hypersdk/utils"
	"github.com/ava-labs/hypersdk/x/dsmr/dsmrtest"
)

func TestGovcDriverC37Verify(t *testing.T) {
	ctx := context.Background()
	result := map[string]interface{}{"violated": false}
	defer func() {
		out, _ := json.Marshal(result)
		fmt.Printf("GOVC-DRIVER-RESULT: %s\n", out)
	}()
	node := newTestNode(t)
	t0 := node.LastAccepted.Timestamp
	if err := node.BuildChunk(ctx, []dsmrtest.Tx{{ID: ids.GenerateTestID(), Expiry: 1}}, t0+5, codec.Address{1}); err != nil {
		t.Fatal(err)
	}
	blk1, err := node.BuildBlock(ctx, node.LastAccepted, t0+1)
	if err != nil {
		t.Fatal(err)
	}
	if err := node.Verify(ctx, node.LastAccepted, blk1); err != nil {
		t.Fatal(err)
	}
	ex1, err := node.Accept(ctx, blk1)
	if err != nil {
		t.Fatal(err)
	}
	oldCert := blk1.ChunkCerts[0]
	// second chunk so that block 2 is non-empty, at a timestamp past the first cert's expiry
	if err := node.BuildChunk(ctx, []dsmrtest.Tx{{ID: ids.GenerateTestID(), Expiry: 1}}, t0+50, codec.Address{2}); err != nil {
		t.Fatal(err)
	}
	blk2, err := node.BuildBlock(ctx, node.LastAccepted, t0+10)
	if err != nil {
		t.Fatal(err)
	}
	if err := node.Verify(ctx, node.LastAccepted, blk2); err != nil {
		t.Fatal(err)
	}
	if _, err := node.Accept(ctx, blk2); err != nil {
		t.Fatal(err)
	}
	// hand-made block 3 re-including the expired, already included certificate
	blk3 := Block{
		BlockHeader: BlockHeader{ParentID: blk2.GetID(), Height: blk2.Height + 1, Timestamp: t0 + 11},
		ChunkCerts:  []*ChunkCertificate{oldCert},
	}
	packer := wrappers.Packer{Bytes: make([]byte, 0, InitialChunkSize), MaxSize: consts.NetworkSizeLimit}
	if err := codec.LinearCodec.MarshalInto(blk3, &packer); err != nil {
		t.Fatal(err)
	}
	blk3.blkBytes = packer.Bytes
	blk3.blkID = utils.ToID(blk3.blkBytes)
	err = node.Verify(ctx, node.LastAccepted, blk3)
	result["trace"] = fmt.Sprintf("chunk cert with expiry %d included at ts %d and accepted; block at ts %d accepted; hand-made block at ts %d re-including the cert: Verify -> %v", oldCert.Expiry, blk1.Timestamp, blk2.Timestamp, blk3.Timestamp, err)
	if err == nil && oldCert.Expiry < blk3.Timestamp {
		result["violated"] = true
		ex3, aerr := node.Accept(ctx, blk3)
		result["same_chunk_delivered_twice"] = aerr == nil && len(ex3.Chunks) == 1 && ex3.Chunks[0].id == ex1.Chunks[0].id
	}
}
