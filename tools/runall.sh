#!/bin/bash
# run every claimed check (quick) and print one line each; exit 1 if any is not green
cd /verif; rc=0
for id in $(python3 -c "import json;print(' '.join(c['property_id'] for c in json.load(open('MANIFEST.json'))['checks']))"); do
  out=$(./check $id 2>&1); e=$?; echo "$(echo "$out" | tail -1)"; [ $e -ne 0 ] && { rc=1; echo "$out" | grep -E "^(VIOLATION|UNDECIDED)" | cut -c1-250 | head -3; }
done
exit $rc
