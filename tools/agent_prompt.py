#!/usr/bin/env python3
import json,sys
pid=sys.argv[1]; wt=sys.argv[2]
for l in open('/verif/properties.jsonl'):
    p=json.loads(l)
    if p['id']==pid: break
print(f"""You are helping test a verification tool by acting as an adversarial but realistic developer of the Go project ava-labs/hypersdk.

You have your own scratch git worktree of the repository at {wt} (a detached checkout). Work ONLY inside {wt} (plus scratch files under /tmp/agent-{pid}/). Never read or touch /repo, /verif or any other worktree. No network is available; use `export GOFLAGS=-mod=mod GOPROXY=off` for every go command and do NOT set GOTOOLCHAIN or GOSUMDB. Do not run `go test ./...` for the whole repo (it takes 25 minutes); run only the packages you touch (e.g. `go test -vet=off -count=1 ./internal/fees/ ./fees/`). NOTE: `go test ./x/dsmr` hangs on the unchanged tree; if you touch x/dsmr, select tests with -run.

PROPERTY {p['id']}: {p['title']}
Statement: {p['statement']}
Quantified over: {p['quantifier']['text']}
Relevant files: {', '.join(p['anchors']['files'])}

TASK: produce up to THREE different, independent changes (mutations) to the production (non-test) Go code of hypersdk, each of which BREAKS this property while (a) the repository still compiles, and (b) the existing tests of every package you touched (and of obvious dependants such as ./chain/ or ./vm/ if you touched something they use heavily — use judgment, keep total test time reasonable) still PASS. Each change must look like something a developer could plausibly write (a refactor gone subtly wrong, an off-by-one at a boundary, a dropped check on a rare path, an overflow handled differently, two cooperating edits that each look fine alone) — NOT an obvious sabotage, and it must need something SPECIFIC to manifest (a boundary value, an unusual input, a multi-step sequence, a rare path) rather than breaking ordinary use at once. Prefer small diffs (1-15 lines). Do not edit test files, and do not edit any file named verif_contracts.go.

For EACH change deliver, under /tmp/agent-{pid}/<n>/ (n = 1,2,3):
  - patch.diff : `git diff` of the change against the worktree's HEAD (apply-able with `git apply` from the repo root)
  - demo_test.go (a Go test file to be dropped into the relevant package directory; say which directory in meta.json) that FAILS with the change applied and PASSES without it. It must exercise the real code and check the property's observable behaviour, with a clear failure message.
  - meta.json : {{"property": "{p['id']}", "package_dir": "<dir for demo_test.go relative to repo root>", "demo_run": "<exact go test command>", "what_breaks": "<one paragraph>", "needs_to_manifest": "<the specific input/sequence/boundary>", "tests_run": ["<commands you ran that passed with the patch>"]}}
Verify all of this yourself: with the patch applied the demo fails and the package tests pass; with the patch reverted (`git checkout -- .`) the demo passes. Leave the worktree clean (git checkout -- . ; remove your demo file from it) when done.

Final answer: a short list of the changes (one line each) and the paths of the deliverables.""")
