#!/usr/bin/env python3
"""Regenerate /verif/MANIFEST.json from props/*.json + tools/manifest_meta.json (claims, N/A reasons)."""
import json, os, subprocess
V='/verif'
props=[json.loads(l) for l in open(f'{V}/properties.jsonl')]
meta=json.load(open(f'{V}/tools/manifest_meta.json'))
hooks=subprocess.run(['git','-C','/repo','log','--format=%H %s'],capture_output=True,text=True).stdout.splitlines()
hook_commits=[l.split()[0] for l in hooks if ' verif hook:' in ' '+l.split(' ',1)[1]]
checks=[]; na=[]
for p in props:
    i=p['id']; m=meta['claims'].get(i)
    if m and os.path.exists(f'{V}/props/{i}.json'):
        checks.append({"property_id":i,"quick_cmd":f"./check {i} --tier quick","thorough_cmd":f"./check {i} --tier thorough",
          "evidence_file":f"/verif/evidence/{i}.json","replay_cmd_template":"cat {path}","engine":"govc",
          "level_claimed":{"category":"proof","text":m['text'],"design_ref":m.get('design_ref','DESIGN.md section 5 '+i)},
          "level_note":m['note'],"technique":m.get('technique',"contract-based deductive verification: WP/symbolic-execution VCs over go/ast+go/types of the real functions, discharged by z3/cvc5")})
    else:
        na.append({"property_id":i,"reason":meta['na'].get(i,"planned, not built yet (DESIGN.md section 2 gives the intended verdict)")})
man={"version":1,"setup_cmd":"./setup.sh",
 "hooks":{"guard":"verif","enable":"contracts are comment-only files /repo/<pkg>/verif_contracts.go behind //go:build verif; govc reads them as text (nothing is compiled into the repository); mirror in /verif/contracts is compared byte-for-byte on every run",
          "baseline_off_cmd":"cd /repo && go test -mod=mod -vet=off -count=1 -timeout 25m ./...","source_commits":hook_commits,"add_only":True},
 "engines":[{"name":"govc","path":"/verif/cmd/govc","serves_properties":[c['property_id'] for c in checks],
   "kind_free_text":"verification-condition generator (symbolic execution = forward WP) over go/ast+go/types of /repo's working tree; contracts as //@ comments; obligations raced on z3 4.8.12, z3 5.1.0, cvc5 1.0.3; counterexamples replayed on the real code through go test -overlay"}],
 "checks":checks,"notes":meta.get('notes',''),"not_applicable":na}
json.dump(man,open(f'{V}/MANIFEST.json','w'),indent=1)
print(len(checks),'checks',len(na),'n/a')
