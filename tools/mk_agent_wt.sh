#!/bin/bash
# mk_agent_wt.sh <ID> : scratch worktree /tmp/wt-<ID> of /repo HEAD with the contract files removed, + /tmp/prompt-<ID>.txt
id=$1; wt=/tmp/wt-$id
git -C /repo worktree remove --force $wt 2>/dev/null; rm -rf $wt /tmp/agent-$id
git -C /repo worktree add -q --detach $wt HEAD || exit 1
cd $wt && find . -name verif_contracts.go -delete && git -c user.name=x -c user.email=x@x commit -qam "scratch: no contract files" 
mkdir -p /tmp/agent-$id
python3 /verif/tools/agent_prompt.py $id $wt > /tmp/prompt-$id.txt
echo "$wt ready; prompt /tmp/prompt-$id.txt"
