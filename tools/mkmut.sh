#!/bin/bash
# mkmut.sh <prop> <name> <file-relative-to-repo> <sed-expression>  : record a mutant as a diff
set -e
cd /repo
[ -z "$(git status --porcelain --untracked-files=no | grep -v verif_contracts.go)" ] || { echo "repo dirty"; exit 1; }
sed -i "$4" "$3"
if [ -z "$(git diff -- "$3")" ]; then echo "NO CHANGE for $2"; exit 1; fi
mkdir -p /verif/selftest/mutants/$1
git diff -- "$3" > /verif/selftest/mutants/$1/$2.diff
git checkout -- "$3"
export GOFLAGS=-mod=mod GOPROXY=off
echo "recorded $1/$2"
