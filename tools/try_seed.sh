#!/bin/bash
# try_seed.sh <seed-dir-name> [check-id] : apply a seeded change to /repo, run the check, undo
d=/verif/seeded/$1; id=${2:-$(python3 -c "import json;print(json.load(open('$d/meta.json'))['property'])")}
cd /repo; [ -z "$(git status --porcelain --untracked-files=no)" ] || { echo "repo dirty"; exit 1; }
git apply $d/patch.diff || { echo "PATCH DOES NOT APPLY to /repo"; exit 1; }
cd /verif; out=$(./check $id 2>&1); rc=$?
git -C /repo checkout -- .
echo "$out" | grep -E "^(VIOLATION|UNDECIDED|KNOWN)" | cut -c1-260 | head -5; echo "$out" | tail -1; echo "exit=$rc"
