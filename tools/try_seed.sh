#!/bin/bash
# try_seed.sh <seed-dir-name> [check-id] : apply a seeded change to /repo, run the check, undo
d=/verif/seeded/$1; id=${2:-$(python3 -c "import json;print(json.load(open('$d/meta.json'))['property'])")}
cd /repo; [ -z "$(git status --porcelain --untracked-files=no | grep -v verif_contracts.go)" ] || { echo "repo dirty"; exit 1; }
P=$d/patch.diff; [ -f $d/patch_rebased_on_fix.diff ] && P=$d/patch_rebased_on_fix.diff
git apply $P || { echo "PATCH DOES NOT APPLY to /repo"; exit 1; }
cd /verif; ev=$(mktemp -d); out=$(VERIF_EVIDENCE_DIR=$ev ./check $id 2>&1); rc=$?; rm -rf $ev
git -C /repo apply -R $P
echo "$out" | grep -E "^(VIOLATION|UNDECIDED|KNOWN)" | cut -c1-260 | head -5; echo "$out" | tail -1; echo "exit=$rc"
