#!/bin/bash
# confirm_seed.sh <prop> <n> : confirm an agent's mutation in its scratch worktree, then store it under /verif/seeded/<prop>-<n>/
# (demo fails with the patch, passes without; touched packages' tests pass with the patch)
id=$1; n=$2; wt=/tmp/wt-$id; src=/tmp/agent-$id/$n
export GOFLAGS=-mod=mod GOPROXY=off
cd $wt || exit 1
git checkout -q -- . ; git clean -qfd
pkgdir=$(python3 -c "import json;print(json.load(open('$src/meta.json'))['package_dir'])")
demo=$wt/$pkgdir/zz_seed_demo_test.go
git apply $src/patch.diff || { echo "PATCH DOES NOT APPLY"; exit 1; }
pkgs=$(git diff --name-only | xargs -n1 dirname | sort -u | sed 's|^|./|' | tr '\n' ' ')
go build ./... || { echo "BUILD FAILS"; git checkout -q -- .; exit 1; }
echo "== package tests with patch: $pkgs ./$pkgdir"
runsel=""
case "$pkgs ./$pkgdir" in *x/dsmr*) runsel="-skip TestGetChunkSignature_PersistAttestedBlocks";; esac
go test -vet=off -count=1 -timeout 600s $runsel $pkgs ./$pkgdir 2>&1 | tail -5; t1=${PIPESTATUS[0]}
cp $src/demo_test.go $demo
echo "== demo with patch (must FAIL)"
go test -vet=off -count=1 -timeout 300s -run "$(grep -o 'func Test[A-Za-z0-9_]*' $src/demo_test.go | sed 's/func //' | paste -sd'|')" ./$pkgdir 2>&1 | tail -4; d1=${PIPESTATUS[0]}
git checkout -q -- .
echo "== demo without patch (must PASS)"
go test -vet=off -count=1 -timeout 300s -run "$(grep -o 'func Test[A-Za-z0-9_]*' $src/demo_test.go | sed 's/func //' | paste -sd'|')" ./$pkgdir 2>&1 | tail -3; d0=${PIPESTATUS[0]}
rm -f $demo
echo "RESULT tests_with_patch=$t1 demo_with_patch=$d1 demo_without=$d0"
if [ $t1 -eq 0 ] && [ $d1 -ne 0 ] && [ $d0 -eq 0 ]; then
  dst=/verif/seeded/$id-$n; mkdir -p $dst; cp $src/patch.diff $src/demo_test.go $dst/
  python3 - <<P
import json
m=json.load(open('$src/meta.json'))
m['confirmed_by_me']={'package_tests_with_patch':'pass','demo_with_patch':'fail','demo_without_patch':'pass','worktree':'scratch (removed)','packages_tested':'$pkgs ./$pkgdir'}
json.dump(m,open('$dst/meta.json','w'),indent=1)
P
  echo CONFIRMED $dst
else echo NOT-CONFIRMED; fi
